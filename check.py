#!/usr/bin/env python3
"""Check driver: runs the gosym harness instances of one property, replays every
solver counterexample natively, validates the engine differentially against the
native build, writes evidence/<id>.json and sets the exit status.

exit 0  property held on everything explored (KNOWN-FINDING lines allowed)
exit 1  at least one natively reproduced violation (VIOLATION lines)
exit 2  inconclusive / infrastructure (never prints VIOLATION)
"""
import json, os, re, subprocess, sys, time, glob, shutil, hashlib, tempfile

ROOT = os.path.dirname(os.path.abspath(__file__))
REPO = os.environ.get("VERIF_REPO", "/repo")
# where evidence/ and replay/ are written (default: /verif; overridden when trying seeded changes in a scratch tree)
OUTROOT = os.environ.get("VERIF_OUTROOT") or os.path.dirname(os.path.abspath(__file__))
GOROOT_BIN = "/opt/veriftools/go1.26.8/bin"
HARNESS_DIR = os.path.join(ROOT, "harness")
GOSYM = os.path.join(ROOT, "bin", "gosym")

sys.path.insert(0, os.path.join(ROOT, "checks"))


def goenv():
    env = dict(os.environ)
    env["PATH"] = GOROOT_BIN + ":" + env.get("PATH", "")
    env.update(GOFLAGS="-mod=mod", GOPROXY="off", GOTOOLCHAIN="local", GONOSUMDB="*", GONOSUMCHECK="1", GOFLAGS_EXTRA="")
    env.setdefault("GOCACHE", "/root/.cache/go-build")
    return env


def log(pid, msg):
    print(f"[{pid}] {msg}", flush=True)


def ensure_engine():
    src = glob.glob(os.path.join(ROOT, "engine", "*.go"))
    if os.path.exists(GOSYM) and all(os.path.getmtime(GOSYM) >= os.path.getmtime(s) for s in src):
        return
    r = subprocess.run(["go", "build", "-o", GOSYM, "."], cwd=os.path.join(ROOT, "engine"), env=goenv(), capture_output=True, text=True)
    if r.returncode != 0:
        print(r.stdout + r.stderr)
        sys.exit(2)


def load_known():
    p = os.path.join(ROOT, "known_findings.json")
    if not os.path.exists(p):
        return []
    return json.load(open(p))["findings"]


def harness_files(pkg_rel):
    d = os.path.join(HARNESS_DIR, pkg_rel)
    return sorted(glob.glob(os.path.join(d, "zz_verif_*.go")))


def make_overlay(pkg_rel, workdir):
    """Build the go test overlay: harness files of the package, vp/rt support packages and a generated replay test."""
    repl = {}
    names = []
    pkgname = None
    for f in harness_files(pkg_rel):
        repl[os.path.join(REPO, pkg_rel, os.path.basename(f))] = f
        src = open(f).read()
        if pkgname is None:
            pkgname = re.search(r"^package (\w+)", src, re.M).group(1)
        names += re.findall(r"^func (Verif\w+)\(\)", src, re.M)
    for sup in ("vp", "rt"):
        for f in glob.glob(os.path.join(HARNESS_DIR, "internal/zzverif", sup, "*.go")):
            repl[os.path.join(REPO, "internal/zzverif", sup, os.path.basename(f))] = f
    # harness files in other packages that this package's harnesses may import
    for f in glob.glob(os.path.join(HARNESS_DIR, "**", "zz_verif_*.go"), recursive=True):
        rel = os.path.relpath(f, HARNESS_DIR)
        if os.path.dirname(rel) != pkg_rel and not f.endswith("_test.go"):
            repl[os.path.join(REPO, rel)] = f
    # source-level stub injection for native runs (//verif:stub directives)
    specs = []
    for f in harness_files(pkg_rel):
        src = open(f).read()
        for m in re.finditer(r"((?:^//verif:stub [^\n]+\n)+)(?:^//[^\n]*\n)*^func (Verif\w+)\(\)", src, re.M):
            for line in m.group(1).strip().splitlines():
                spec = line[len("//verif:stub "):].replace(" ", "")
                full, stub = spec.split("=", 1)
                # full: import/path.Func or (*import/path.T).Method
                mm = re.match(r"^\(\*?([^)]+)\.(\w+)\)\.(\w+)$", full)
                if mm:
                    ipath, fn = mm.group(1), ("(*" if full.startswith("(*") else "(") + mm.group(2) + ")." + mm.group(3)
                else:
                    ipath, fn = full.rsplit(".", 1)
                if not ipath.startswith("github.com/pdfcpu/pdfcpu"):
                    continue  # stubs of non-repo functions cannot be injected natively
                d = os.path.join(REPO, ipath[len("github.com/pdfcpu/pdfcpu"):].lstrip("/"))
                specs.append(dict(dir=d, func=fn, stub=stub.rsplit(".", 1)[-1], harness=m.group(2)))
    if specs:
        sp = os.path.join(workdir, "stubs_" + hashlib.md5(pkg_rel.encode()).hexdigest()[:8] + ".json")
        json.dump(specs, open(sp, "w"))
        r = subprocess.run([GOSYM, "-patchstubs", sp, "-patchout", workdir], capture_output=True, text=True, env=goenv())
        if r.returncode != 0:
            print("stub patching failed:\n" + r.stdout + r.stderr)
        else:
            for orig, patched in json.loads(r.stdout)["replace"].items():
                repl[orig] = patched
    test = ["package " + pkgname, "", "import (", '\t"testing"', "", '\t"github.com/pdfcpu/pdfcpu/internal/zzverif/vp"', ")", "",
            "func TestVerifReplay(t *testing.T) {", "\tvp.Main(t, map[string]func(){"]
    for n in names:
        test.append(f'\t\t"{n}": {n},')
    test += ["\t})", "}", ""]
    tf = os.path.join(workdir, "zz_verif_replay_test.go")
    open(tf, "w").write("\n".join(test))
    repl[os.path.join(REPO, pkg_rel, "zz_verif_replay_test.go")] = tf
    ov = os.path.join(workdir, "overlay.json")
    json.dump({"Replace": repl}, open(ov, "w"), indent=1)
    return ov


_native_bin = {}


def native_test_binary(pkg_rel, workdir):
    """Compile the package's test binary once (with overlay); returns its path or None."""
    if pkg_rel in _native_bin:
        return _native_bin[pkg_rel]
    ov = make_overlay(pkg_rel, workdir)
    out = os.path.join(workdir, "replay_" + hashlib.md5(pkg_rel.encode()).hexdigest()[:8] + ".test")
    r = subprocess.run(["go", "test", "-c", "-vet=off", "-overlay", ov, "-o", out, "./" + pkg_rel], cwd=REPO, env=goenv(), capture_output=True, text=True)
    if r.returncode != 0:
        print("native build failed:\n" + r.stdout + r.stderr)
        _native_bin[pkg_rel] = None
        return None
    _native_bin[pkg_rel] = out
    return out


def _limit_memory():
    # replays of non-termination witnesses may allocate without bound: cap the address space
    import resource
    resource.setrlimit(resource.RLIMIT_AS, (12 << 30, 12 << 30))


def run_native(pkg_rel, workdir, harness, bounds, replay=None, seed=None, count=1, timeout=300):
    binp = native_test_binary(pkg_rel, workdir)
    if binp is None:
        return None
    env = goenv()
    outp = os.path.join(workdir, f"native_{harness}_{os.getpid()}_{time.time_ns()}.json")
    env.update(VP_HARNESS=harness, VP_OUT=outp, VP_BOUNDS=",".join(f"{k}={v}" for k, v in bounds.items()))
    if replay:
        env["VP_REPLAY"] = replay
    else:
        env["VP_RANDOM"] = str(seed)
        env["VP_COUNT"] = str(count)
    try:
        r = subprocess.run([binp, "-test.run", "^TestVerifReplay$", "-test.count=1", "-test.timeout", f"{timeout}s"],
                           cwd=os.path.join(REPO, pkg_rel), env=env, capture_output=True, text=True, timeout=timeout + 30,
                           preexec_fn=(_limit_memory if timeout < 60 else None))
    except subprocess.TimeoutExpired:
        return [{"status": "timeout", "msg": "native run timed out", "observes": [], "draws": []}]
    if not os.path.exists(outp):
        return [{"status": "crash", "msg": (r.stdout + r.stderr)[-2000:], "observes": [], "draws": []}]
    res = json.load(open(outp))
    os.unlink(outp)
    return res


def run_gosym(pkg, harness, opts, bounds, outp, known_ids, extra=None, timeout=None):
    cmd = [GOSYM, "-dir", REPO, "-overlay", HARNESS_DIR, "-pkg", pkg, "-harness", harness, "-out", outp,
           "-enc", opts.get("enc", "bv"), "-solver", opts.get("solver", "z3-new"),
           "-unwind", str(opts.get("unwind", 64)), "-workers", str(opts.get("workers", 16)),
           "-timeout", str(opts.get("timeout_ms", 20000)), "-maxpaths", str(opts.get("maxpaths", 2000000)),
           "-walltime", str(opts.get("walltime", 3000))]
    if opts.get("panicok"):
        cmd.append("-panicok")
    if opts.get("revmap"):
        cmd.append("-revmap")
    if opts.get("maprotate"):
        cmd.append("-maprotate")
    if opts.get("unwind_violation"):
        cmd.append("-unwindviol")
    if opts.get("nomerge"):
        cmd.append("-nomerge")
    if known_ids:
        cmd += ["-known", ",".join(known_ids)]
    for k, v in bounds.items():
        cmd += ["-bound", f"{k}={v}"]
    for s in opts.get("stubs", []):
        cmd += ["-stub", s]
    for m in opts.get("merge", []):
        cmd += ["-merge", m]
    if extra:
        cmd += extra
    try:
        r = subprocess.run(cmd, env=goenv(), capture_output=True, text=True, timeout=timeout or max(opts.get("wall_timeout", 3000), opts.get("walltime", 3000) + 300))
    except subprocess.TimeoutExpired:
        return None, "gosym wall-clock timeout"
    if r.returncode != 0 or not os.path.exists(outp):
        return None, (r.stdout + r.stderr)[-3000:]
    return json.load(open(outp)), r.stderr.strip().splitlines()[-1] if r.stderr.strip() else ""


def main():
    import props
    args = sys.argv[1:]
    if not args:
        print("usage: check <ID> [--tier quick|thorough] | check replay <path>")
        sys.exit(2)
    if args[0] == "replay":
        sys.exit(replay_cmd(args[1], props))
    pid = args[0]
    tier = os.environ.get("VERIF_TIER", "quick")
    if "--tier" in args:
        tier = args[args.index("--tier") + 1]
    seed = int(os.environ.get("VERIF_SEED", "1"))
    only = None
    if "--only" in args:
        only = args[args.index("--only") + 1]
    nodiff = "--nodiff" in args
    if pid not in props.PROPS:
        print(f"unknown property {pid}")
        sys.exit(2)
    spec = props.PROPS[pid]
    ensure_engine()
    for g in spec.get("pregen", []):
        r = subprocess.run([sys.executable, os.path.join(ROOT, g)], capture_output=True, text=True, env=dict(os.environ, VERIF_REPO=REPO))
        log(pid, "pregen " + g + ": " + (r.stdout + r.stderr).strip())
        if r.returncode != 0:
            sys.exit(2)
    t0 = time.time()
    workdir = tempfile.mkdtemp(prefix=f"verif_{pid}_", dir=os.environ.get("VERIF_TMP", "/var/tmp"))
    try:
        rc = run_property(pid, spec, tier, seed, workdir, t0, only, nodiff)
    finally:
        shutil.rmtree(workdir, ignore_errors=True)
    sys.exit(rc)


def run_property(pid, spec, tier, seed, workdir, t0, only, nodiff):
    known = [k for k in load_known() if k["property"] == pid]
    open_ids = [k["id"] for k in known if k["status"] == "open"]
    replay_dir = os.path.join(OUTROOT, "replay", pid)
    os.makedirs(replay_dir, exist_ok=True)
    for f in glob.glob(os.path.join(replay_dir, "*.json")):
        os.unlink(f)

    totals = dict(paths=0, decisions=0, asserts=0, nontrivial=0, feas=0, assert_q=0, unknown=0, solver_s=0.0, diff_runs=0, replays=0, steps=0)
    fns_pdfcpu, fns_other, stubs = set(), set(), set()
    instances, samples, problems, violations, known_hits = [], [], [], [], {}
    bounds_used = {}
    solver_times = {}
    unconfirmed = []
    vacuous = []

    for h in spec["harnesses"]:
        if only and h["name"] != only:
            continue
        if tier == "quick" and h.get("thorough_only"):
            continue
        pkg = h.get("pkg", spec.get("pkg"))
        pkg_rel = pkg[2:] if pkg.startswith("./") else pkg
        bounds = dict(h.get("bounds", {}).get("quick", {}))
        if tier == "thorough":
            bounds.update(h.get("bounds", {}).get("thorough", {}))
        opts = dict(spec.get("opts", {}))
        opts.update(h.get("opts", {}))
        if tier == "thorough":
            opts.update(h.get("opts_thorough", {}))
        solvers = opts.get("solvers") or [opts.get("solver", "z3-new")]
        if tier == "quick":
            solvers = solvers[:1]
        for si, solver in enumerate(solvers):
            o2 = dict(opts)
            o2["solver"] = solver
            outp = os.path.join(workdir, f"{h['name']}_{solver}.json")
            res, info = run_gosym(pkg, h["name"], o2, bounds, outp, open_ids)
            if res is None:
                problems.append(f"{h['name']}[{solver}]: engine failed: {info}")
                log(pid, f"harness {h['name']} [{solver}] ENGINE FAILURE\n{info}")
                continue
            log(pid, info.replace("[gosym] ", ""))
            inst = dict(harness=h["name"], solver=solver, encoding=res["encoding"], bounds=bounds, unwind=res["unwind"], unwind_used=res["unwind_used"],
                        paths=res["paths"], path_status=res["path_status"], queries=res["queries"], asserts=res["asserts"],
                        assert_sites=len(res["assert_sites"] or []), wall_s=round(res["wall_s"], 2), solver_time_s=round(res["solver_time_s"], 2))
            instances.append(inst)
            solver_times[solver] = solver_times.get(solver, 0.0) + res["solver_time_s"]
            if si == 0:
                totals["paths"] += res["paths"]
                totals["decisions"] += res["decisions"]
                totals["asserts"] += res["asserts"]
                totals["nontrivial"] += res["nontrivial_paths"]
                totals["steps"] += res["steps"]
            q = res["queries"]
            totals["feas"] += q["feas_sat"] + q["feas_unsat"] + q["feas_unknown"]
            totals["assert_q"] += q["assert_sat"] + q["assert_unsat"] + q["assert_unknown"]
            totals["unknown"] += q["feas_unknown"] + q["assert_unknown"]
            totals["portfolio"] = totals.get("portfolio", 0) + q.get("portfolio_rescued", 0)
            fns_pdfcpu.update(res["functions_pdfcpu"] or [])
            fns_other.update(res["functions_other"] or [])
            stubs.update(res["stubs"] or [])
            for k, v in bounds.items():
                bounds_used[f"{h['name']}.{k}"] = v
            bounds_used[f"{h['name']}.unwind"] = res["unwind"]
            for p in res["problems"] or []:
                problems.append(f"{h['name']}[{solver}]: {p}")
            # vacuity: every harness must reach at least one assertion on a feasible path
            if not h.get("no_assert") and not (res["assert_sites"] or []):
                vacuous.append(h["name"])
            want_sites = h.get("min_assert_sites")
            if want_sites and len(res["assert_sites"] or []) < want_sites:
                vacuous.append(f"{h['name']} (reached {len(res['assert_sites'] or [])} of {want_sites} assertion sites)")
            if res.get("sample") and len(samples) < 6:
                samples.append(dict(harness=h["name"], draws=[d["val"] for d in res["sample"]][:24], observe=res.get("sample_observe")))
            # counterexamples -> native replay
            for vi, v in enumerate((res["violations"] or [])[:12]):
                if v["kind"] == "unknown":
                    problems.append(f"{h['name']}[{solver}]: {v['msg']} at {v['site']}")
                    continue
                rp = os.path.join(replay_dir, f"{h['name']}-{solver}-{vi}.json")
                json.dump(dict(property=pid, harness=h["name"], pkg=pkg, bounds=bounds, kind=v["kind"], msg=v["msg"], site=v["site"],
                               known=v.get("known", ""), draws=v["draws"]), open(rp, "w"), indent=1)
                ok = False
                detail = "native build failed"
                # Go randomises map iteration: when the engine forked over iteration orders the native
                # replay is repeated until the recorded order comes up (bounded number of attempts)
                for attempt in range(40 if o2.get("maprotate") else 1):
                    # a non-termination witness is replayed under a short time limit: a hang (or the memory
                    # exhaustion it leads to) reproduces it
                    nat = run_native(pkg_rel, workdir, h["name"], bounds, replay=rp, timeout=(20 if v["kind"] == "unwind" else 300))
                    totals["replays"] += 1
                    if nat:
                        n0 = nat[0]
                        detail = f"{n0['status']}: {n0.get('msg','')}"
                        if v["kind"] == "assert":
                            ok = n0["status"] == "assertfail" and n0.get("msg") == v["msg"]
                        elif v["kind"] in ("panic", "stackoverflow", "unwind"):
                            ok = n0["status"] in ("panic", "crash", "timeout")
                    if ok or not nat:
                        break
                if ok:
                    if v.get("known"):
                        known_hits.setdefault(v["known"], rp)
                        log(pid, f"  cex {h['name']} ({v['msg']}) reproduced natively; covered by known finding {v['known']}")
                    else:
                        violations.append((rp, h["name"], v))
                        log(pid, f"  cex {h['name']} ({v['kind']}: {v['msg']}) at {v['site']} REPRODUCED natively: {detail}")
                else:
                    unconfirmed.append(f"{h['name']}: {v['kind']} '{v['msg']}' at {v['site']} not reproduced natively ({detail}); replay={rp}")
                    log(pid, f"  cex {h['name']} ({v['kind']}: {v['msg']}) NOT reproduced natively ({detail})")
            # translator validation: native random runs vs engine concrete mode
            if si == 0 and not nodiff and not h.get("nodiff"):
                k = h.get("diff", 8 if tier == "quick" else 48)
                nat = run_native(pkg_rel, workdir, h["name"], bounds, seed=seed * 1000003, count=k)
                if nat is None:
                    problems.append(f"{h['name']}: native build failed (differential validation impossible)")
                else:
                    vecs = [dict(draws=n["draws"]) for n in nat]
                    vs = os.path.join(workdir, f"{h['name']}_vecs.json")
                    json.dump(vecs, open(vs, "w"))
                    co = os.path.join(workdir, f"{h['name']}_conc.json")
                    cres, cinfo = run_gosym(pkg, h["name"], o2, bounds, co, [], extra=["-replayset", vs])
                    if cres is None:
                        problems.append(f"{h['name']}: engine concrete mode failed: {cinfo}")
                    else:
                        mism = 0
                        for n, c in zip(nat, cres):
                            totals["diff_runs"] += 1
                            ns = n["status"]
                            cs = c["status"]
                            same = (ns == cs) or (ns == "exhausted" and cs == "error")
                            if ns in ("ok", "assertfail") and same and (n.get("observes") or []) != (c.get("observes") or []):
                                same = False
                            if ns == "assertfail" and cs == "assertfail" and n.get("msg") not in (c.get("msg") or ""):
                                same = False
                            if not same:
                                mism += 1
                                if mism <= 3:
                                    problems.append(f"{h['name']}: engine/native mismatch on draws {[d['val'] for d in n['draws']][:16]}: native {ns} {n.get('msg','')} {n.get('observes')} vs engine {cs} {c.get('msg','')} {c.get('observes')}")
                        if mism:
                            log(pid, f"  differential: {mism}/{len(nat)} MISMATCH")
                        else:
                            log(pid, f"  differential: {len(nat)} vectors native == engine")

    wall = time.time() - t0
    # ---- verdict ----
    rc = 0
    for kid, rp in known_hits.items():
        kf = [k for k in known if k["id"] == kid][0]
        print(f"KNOWN-FINDING: property={pid} {kf['description']} [{kid}] replay={rp}", flush=True)
    for k in known:
        if k["status"] == "open" and k["id"] not in known_hits and not only:
            log(pid, f"note: open known finding {k['id']} was not reproduced by this run (tier {tier})")
    for rp, hn, v in violations:
        print(f"VIOLATION property={pid} replay={rp}", flush=True)
        rc = 1
    if rc == 0 and (problems or unconfirmed or vacuous):
        rc = 2
    for p in problems[:30]:
        log(pid, "PROBLEM " + p)
    for u in unconfirmed:
        log(pid, "UNCONFIRMED " + u)
    for v in vacuous:
        log(pid, "VACUOUS harness reached no assertion: " + v)

    ev = dict(
        property_id=pid, tier=tier, seed=seed, level=spec.get("level", "model_checking"),
        coverage=dict(
            states=max(totals["paths"], 0), transitions=totals["decisions"],
            traces_validated_against_impl=totals["diff_runs"] + totals["replays"],
            samples=samples or [dict(note="no symbolic sample recorded")],
            evaluations=totals["asserts"], distinct_nontrivial=totals["nontrivial"],
            rule="state = one completed path of a harness (distinct decision trace); transition = one solver-decided or forked branch decision; evaluation = one vp.Assert reached on a path (decided by an SMT query unless it folded to a constant); non-trivial = path whose inputs are symbolic (at least one draw or solver-decided branch), counted per distinct decision trace",
            exhaustive=(rc == 0 and not problems),
            explanation=spec.get("explanation", ""),
            bounds=bounds_used,
            functions_encoded=dict(pdfcpu=sorted(fns_pdfcpu), other=sorted(fns_other)),
            queries=dict(feasibility=totals["feas"], assertion=totals["assert_q"], unknown=totals["unknown"], decided_by_portfolio_fallback=totals.get("portfolio", 0)),
            solver_time_s={k: round(v, 2) for k, v in solver_times.items()},
            stubs=sorted(stubs), harness_instances=instances, instructions_interpreted=totals["steps"],
            problems=problems[:30], unconfirmed_counterexamples=unconfirmed, vacuity_failures=vacuous,
            known_findings_reproduced=sorted(known_hits.keys()),
            outside_claim=spec.get("outside", ""),
        ),
        assumptions=spec.get("assumptions", []) + ["go/ssa v0.50.0 lowering of the current /repo tree", "gosym interpreter semantics (validated per run by native-vs-engine differential runs and native replay of every counterexample)", "SMT solver soundness (z3 5.1.0 / cvc5 1.0.3)"],
        wall_s=round(wall, 2), violations=len(violations),
    )
    os.makedirs(os.path.join(OUTROOT, "evidence"), exist_ok=True)
    if not only:
        json.dump(ev, open(os.path.join(OUTROOT, "evidence", f"{pid}.json"), "w"), indent=1)
    log(pid, f"paths={totals['paths']} asserts={totals['asserts']} queries={totals['feas']+totals['assert_q']} unknown={totals['unknown']} diff={totals['diff_runs']} replays={totals['replays']} wall={wall:.1f}s -> exit {rc}")
    return rc


def replay_cmd(path, props):
    d = json.load(open(path))
    pkg = d["pkg"]
    pkg_rel = pkg[2:] if pkg.startswith("./") else pkg
    workdir = tempfile.mkdtemp(prefix="verif_replay_", dir=os.environ.get("VERIF_TMP", "/var/tmp"))
    try:
        nat = run_native(pkg_rel, workdir, d["harness"], d.get("bounds", {}), replay=path)
    finally:
        shutil.rmtree(workdir, ignore_errors=True)
    if not nat:
        print("native build failed")
        return 2
    n0 = nat[0]
    print(f"replay {d['harness']}: native status={n0['status']} msg={n0.get('msg','')}")
    print("draws:", [x["val"] for x in d["draws"]])
    if n0["status"] in ("assertfail", "panic", "crash", "timeout"):
        print(f"VIOLATION property={d['property']} replay={path}")
        return 1
    return 0


if __name__ == "__main__":
    main()
