package main

import (
	"os"

	"github.com/pdfcpu/pdfcpu/internal/zzverif/vp"
	"github.com/pdfcpu/pdfcpu/pkg/cli"
	"github.com/pdfcpu/pdfcpu/pkg/pdfcpu/model"
)

var verifSinkReached bool
var verifDir string

func verifExists(p string) bool {
	_, err := os.Stat(p)
	return err == nil
}

func verifNonEmptyDir(p string) bool {
	ents, err := os.ReadDir(p)
	return err == nil && len(ents) > 0
}

func verifIsInput(cmd *cli.Command, p string) bool {
	// "import" and "merge -mode append" document that an existing outFile is extended (it is their input)
	if cmd.Mode == model.IMPORTIMAGES || cmd.Mode == model.MERGEAPPEND {
		return true
	}
	if cmd.InFile != nil && *cmd.InFile == p {
		return true
	}
	for _, f := range cmd.InFiles {
		if f == p {
			return true
		}
	}
	return false
}

// verifSink stands in for runCommand (the single funnel of all handlers): when a command is about to be
// executed, an explicit output file that exists (and is not the input: in-place) or a non-empty output
// directory requires --force.
func verifSink(cmd *cli.Command) error {
	verifSinkReached = true
	for _, p := range []*string{cmd.OutFile, cmd.OutFileJSON} {
		if p == nil || *p == "" || *p == "-" || verifIsInput(cmd, *p) {
			continue
		}
		if verifExists(*p) {
			vp.Assert(force, "a command would overwrite an existing output file without --force")
		}
	}
	if cmd.OutDir != nil && *cmd.OutDir != "" && *cmd.OutDir != "-" && verifNonEmptyDir(*cmd.OutDir) {
		// merge-append style modes write into an existing file, not into the directory: only modes that
		// create files inside OutDir are held to the rule
		if verifWritesIntoDir(cmd.Mode) {
			vp.Assert(force, "a command would write into a non-empty output directory without --force")
		}
	}
	return nil
}

func verifWritesIntoDir(m model.CommandMode) bool {
	switch m {
	case model.SPLIT, model.SPLITBYPAGENR, model.EXTRACTIMAGES, model.EXTRACTFONTS, model.EXTRACTPAGES,
		model.EXTRACTCONTENT, model.EXTRACTMETADATA, model.EXTRACTATTACHMENTS, model.NDOWN, model.CUT, model.POSTER:
		return true
	}
	return false
}

//verif:stub github.com/pdfcpu/pdfcpu/cmd/pdfcpu.runCommand=verifSink
//verif:panicok
// VerifForceGate (C04): every handle*Command of the CLI (table generated from the current sources), every
// argument list of 0..ARGS entries drawn from a pool of input files, existing and absent outputs, empty and
// non-empty directories, '-' and a number, with and without --force.
func VerifForceGate() {
	h := verifHandlers[vp.Choice(len(verifHandlers))]
	dir, err := os.MkdirTemp("", "verifc04")
	if err != nil {
		vp.Unsupported("mkdirtemp")
	}
	verifDir = dir
	mk := func(name string) string {
		p := dir + "/" + name
		if os.WriteFile(p, []byte("x"), 0o644) != nil {
			vp.Unsupported("setup")
		}
		return p
	}
	in1, in2, outOld := mk("in.pdf"), mk("in2.pdf"), mk("old.pdf")
	jsonOld, csv := mk("old.json"), mk("data.csv")
	full, empty := dir+"/full", dir+"/empty"
	if os.Mkdir(full, 0o755) != nil || os.Mkdir(empty, 0o755) != nil || os.WriteFile(full+"/a.pdf", []byte("x"), 0o644) != nil {
		vp.Unsupported("setup")
	}
	pool := []string{in1, in2, outOld, dir + "/new.pdf", jsonOld, dir + "/new.json", csv, full, empty, dir + "/absent", "-", "3", "on"}
	n := vp.IntRange(0, vp.Bound("ARGS"))
	args := make([]string, n)
	for i := range args {
		args[i] = pool[vp.Choice(len(pool))]
	}
	force = vp.Bool()
	quiet = true
	selectedPages = ""
	verifSinkReached = false
	conf := &model.Configuration{CheckFileNameExt: true}
	_ = h.call(conf, args)
	vp.Observe("handler", h.name)
	vp.Assert(true, "reached")
	if !vp.Symbolic() {
		os.RemoveAll(dir)
	}
}
