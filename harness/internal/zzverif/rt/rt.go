// Package rt holds pure-Go replacements for body-less runtime/bytealg
// functions. The symbolic engine interprets these instead of the assembly.
package rt

// RuntimeError is the dynamic type the engine gives to runtime panics.
type RuntimeError string

func (e RuntimeError) Error() string { return string(e) }
func (e RuntimeError) RuntimeError() {}

func IndexByteString(s string, c byte) int {
	for i := 0; i < len(s); i++ {
		if s[i] == c {
			return i
		}
	}
	return -1
}

func IndexByte(b []byte, c byte) int {
	for i := 0; i < len(b); i++ {
		if b[i] == c {
			return i
		}
	}
	return -1
}

func LastIndexByteString(s string, c byte) int {
	for i := len(s) - 1; i >= 0; i-- {
		if s[i] == c {
			return i
		}
	}
	return -1
}

func LastIndexByte(b []byte, c byte) int {
	for i := len(b) - 1; i >= 0; i-- {
		if b[i] == c {
			return i
		}
	}
	return -1
}

func CountString(s string, c byte) int {
	n := 0
	for i := 0; i < len(s); i++ {
		if s[i] == c {
			n++
		}
	}
	return n
}

func Count(b []byte, c byte) int {
	n := 0
	for i := 0; i < len(b); i++ {
		if b[i] == c {
			n++
		}
	}
	return n
}

func Equal(a, b []byte) bool {
	if len(a) != len(b) {
		return false
	}
	eq := true
	for i := range a {
		eq = eq && a[i] == b[i]
	}
	return eq
}

func Compare(a, b []byte) int {
	n := len(a)
	if len(b) < n {
		n = len(b)
	}
	for i := 0; i < n; i++ {
		if a[i] != b[i] {
			if a[i] < b[i] {
				return -1
			}
			return 1
		}
	}
	if len(a) < len(b) {
		return -1
	}
	if len(a) > len(b) {
		return 1
	}
	return 0
}

func CompareString(a, b string) int {
	if a == b {
		return 0
	}
	if a < b {
		return -1
	}
	return 1
}

func IndexString(s, sub string) int {
	n := len(sub)
	for i := 0; i+n <= len(s); i++ {
		if s[i:i+n] == sub {
			return i
		}
	}
	return -1
}

func Index(s, sub []byte) int {
	n := len(sub)
	for i := 0; i+n <= len(s); i++ {
		if string(s[i:i+n]) == string(sub) {
			return i
		}
	}
	return -1
}

func Cutover(n int) int { return 1 << 30 }
