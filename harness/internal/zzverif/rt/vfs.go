package rt

// vfs: a small POSIX-like file system model, written in plain Go and interpreted by
// the symbolic engine in place of the os package (the engine redirects os.OpenFile,
// os.CreateTemp, os.Rename, (*os.File).Write, ... to the V* functions below). It
// models successful operations and the natural errors (ENOENT, EEXIST, ENOTEMPTY,
// use after close, ENAMETOOLONG for components above 255 bytes, symbolic links in the final
// component). Fault and crash injection is done by the harnesses around the
// operation tables of the code under test, so that the same harness replays natively
// against the real file system.
//
// Contract (what is assumed about the real os package): a failed call leaves the
// file system unchanged; rename replaces the destination atomically; O_EXCL creation
// fails iff the name exists; CreateTemp returns a name that did not exist.

import (
	"errors"
	"io"
	"io/fs"
	"os"
	"time"
)

type VInode struct {
	Data []byte
	Mode fs.FileMode
	Dir  bool
	Ino  int
	Link string // non-empty: symbolic link to this path (final path components only; links to directories are not modelled)
}

type VHandle struct {
	Node   *VInode
	Name   string
	Off    int64
	Write  bool
	Read   bool
	Append bool
	Closed bool
}

type vfsState struct {
	names   map[string]*VInode
	handles map[*os.File]*VHandle
	nextIno int
	nextTmp int
	order   []string // creation order of names (deterministic listings)
}

var vstate *vfsState

func vs() *vfsState {
	if vstate == nil {
		vstate = &vfsState{names: map[string]*VInode{}, handles: map[*os.File]*VHandle{}}
		vstate.mk("/", &VInode{Dir: true, Mode: fs.ModeDir | 0o755})
		vstate.mk("/vtmp", &VInode{Dir: true, Mode: fs.ModeDir | 0o755})
	}
	return vstate
}

func (s *vfsState) mk(name string, n *VInode) {
	s.nextIno++
	n.Ino = s.nextIno
	if _, ok := s.names[name]; !ok {
		s.order = append(s.order, name)
	}
	s.names[name] = n
}

var errInval = errors.New("invalid argument")
var errNotEmpty = errors.New("directory not empty")
var errIsDir = errors.New("is a directory")
var errNotDir = errors.New("not a directory")

func vclean(p string) string {
	// lexical normalisation of the few forms the harnesses use: "./x", "a//b", trailing "/"
	if p == "" {
		return "."
	}
	abs := p[0] == '/'
	var parts []string
	start := 0
	for i := 0; i <= len(p); i++ {
		if i == len(p) || p[i] == '/' {
			seg := p[start:i]
			start = i + 1
			switch seg {
			case "", ".":
			case "..":
				if len(parts) > 0 && parts[len(parts)-1] != ".." {
					parts = parts[:len(parts)-1]
				} else if !abs {
					parts = append(parts, "..")
				}
			default:
				parts = append(parts, seg)
			}
		}
	}
	out := ""
	for i, s := range parts {
		if i > 0 {
			out += "/"
		}
		out += s
	}
	if abs {
		return "/" + out
	}
	if out == "" {
		return "."
	}
	return out
}

// vabs resolves a path against the model's working directory (/vtmp/cwd is not modelled: cwd = /vtmp).
func vabs(p string) string {
	c := vclean(p)
	if c[0] == '/' {
		return c
	}
	if c == "." {
		return "/vtmp"
	}
	return vclean("/vtmp/" + c)
}

func vdir(p string) string {
	for i := len(p) - 1; i > 0; i-- {
		if p[i] == '/' {
			return p[:i]
		}
	}
	return "/"
}

func vbase(p string) string {
	for i := len(p) - 1; i >= 0; i-- {
		if p[i] == '/' {
			return p[i+1:]
		}
	}
	return p
}

var errLoop = errors.New("too many levels of symbolic links")
var errNameTooLong = errors.New("file name too long")

// vtoolong: NAME_MAX = 255 bytes per path component (ext4, tmpfs, xfs, btrfs, overlayfs).
func vtoolong(p string) bool {
	n := 0
	for i := 0; i < len(p); i++ {
		if p[i] == '/' {
			n = 0
			continue
		}
		n++
		if n > 255 {
			return true
		}
	}
	return false
}

// vfollow resolves symbolic links in the FINAL component of the absolute path p (as open/stat do).
func vfollow(p string) (string, error) {
	s := vs()
	for i := 0; i < 8; i++ {
		n, ok := s.names[p]
		if !ok || n.Link == "" {
			return p, nil
		}
		if n.Link[0] == '/' {
			p = vclean(n.Link)
		} else {
			p = vclean(vdir(p) + "/" + n.Link)
		}
	}
	return p, errLoop
}

func perr(op, path string, err error) error { return &fs.PathError{Op: op, Path: path, Err: err} }

func VOpenFile(name string, flag int, perm os.FileMode) (*os.File, error) {
	s := vs()
	p := vabs(name)
	if vtoolong(p) {
		return nil, perr("open", name, errNameTooLong)
	}
	n, exists := s.names[p]
	if exists && flag&os.O_CREATE != 0 && flag&os.O_EXCL != 0 {
		return nil, perr("open", name, fs.ErrExist) // also for a (dangling) symbolic link: O_EXCL does not follow
	}
	if exists && n.Link != "" {
		var err error
		if p, err = vfollow(p); err != nil {
			return nil, perr("open", name, err)
		}
		n, exists = s.names[p]
	}
	if !exists {
		if flag&os.O_CREATE == 0 {
			return nil, perr("open", name, fs.ErrNotExist)
		}
		parent, ok := s.names[vdir(p)]
		if !ok {
			return nil, perr("open", name, fs.ErrNotExist)
		}
		if !parent.Dir {
			return nil, perr("open", name, errNotDir)
		}
		n = &VInode{Mode: perm.Perm()}
		s.mk(p, n)
	}
	acc := flag & (os.O_RDONLY | os.O_WRONLY | os.O_RDWR)
	if n.Dir && acc != os.O_RDONLY {
		return nil, perr("open", name, errIsDir)
	}
	if flag&os.O_TRUNC != 0 && acc != os.O_RDONLY {
		n.Data = nil
	}
	f := new(os.File)
	s.handles[f] = &VHandle{Node: n, Name: name, Read: acc == os.O_RDONLY || acc == os.O_RDWR, Write: acc == os.O_WRONLY || acc == os.O_RDWR, Append: flag&os.O_APPEND != 0}
	return f, nil
}

func VOpen(name string) (*os.File, error) { return VOpenFile(name, os.O_RDONLY, 0) }

func VCreate(name string) (*os.File, error) {
	return VOpenFile(name, os.O_RDWR|os.O_CREATE|os.O_TRUNC, 0o666)
}

func vitoa(n int) string {
	if n == 0 {
		return "0"
	}
	s := ""
	for n > 0 {
		s = string(rune('0'+n%10)) + s
		n /= 10
	}
	return s
}

func vtempName(pattern string, k int) string {
	prefix, suffix := pattern, ""
	for i := len(pattern) - 1; i >= 0; i-- {
		if pattern[i] == '*' {
			prefix, suffix = pattern[:i], pattern[i+1:]
			break
		}
	}
	return prefix + "vt" + vitoa(k) + suffix
}

func VCreateTemp(dir, pattern string) (*os.File, error) {
	s := vs()
	if dir == "" {
		dir = "/vtmp"
	}
	for {
		s.nextTmp++
		name := dir + "/" + vtempName(pattern, s.nextTmp)
		if _, exists := s.names[vabs(name)]; exists {
			continue
		}
		return VOpenFile(name, os.O_RDWR|os.O_CREATE|os.O_EXCL, 0o600)
	}
}

func VMkdirTemp(dir, pattern string) (string, error) {
	s := vs()
	if dir == "" {
		dir = "/vtmp"
	}
	if n, ok := s.names[vabs(dir)]; !ok || !n.Dir {
		return "", perr("mkdir", dir, fs.ErrNotExist)
	}
	for {
		s.nextTmp++
		name := dir + "/" + vtempName(pattern, s.nextTmp)
		if _, exists := s.names[vabs(name)]; exists {
			continue
		}
		s.mk(vabs(name), &VInode{Dir: true, Mode: fs.ModeDir | 0o700})
		return name, nil
	}
}

func VMkdir(name string, perm os.FileMode) error {
	s := vs()
	p := vabs(name)
	if vtoolong(p) {
		return perr("mkdir", name, errNameTooLong)
	}
	if _, exists := s.names[p]; exists {
		return perr("mkdir", name, fs.ErrExist)
	}
	if n, ok := s.names[vdir(p)]; !ok || !n.Dir {
		return perr("mkdir", name, fs.ErrNotExist)
	}
	s.mk(p, &VInode{Dir: true, Mode: fs.ModeDir | perm.Perm()})
	return nil
}

func VMkdirAll(name string, perm os.FileMode) error {
	s := vs()
	p := vabs(name)
	if n, exists := s.names[p]; exists {
		if n.Dir {
			return nil
		}
		return perr("mkdir", name, errNotDir)
	}
	if p != "/" {
		if err := VMkdirAll(vdir(p), perm); err != nil {
			return err
		}
	}
	s.mk(p, &VInode{Dir: true, Mode: fs.ModeDir | perm.Perm()})
	return nil
}

type VFileInfo struct {
	NameV string
	Node  *VInode
}

func (fi VFileInfo) Name() string       { return fi.NameV }
func (fi VFileInfo) Size() int64        { return int64(len(fi.Node.Data)) }
func (fi VFileInfo) Mode() fs.FileMode  { return fi.Node.Mode }
func (fi VFileInfo) ModTime() time.Time { return time.Time{} }
func (fi VFileInfo) IsDir() bool        { return fi.Node.Dir }
func (fi VFileInfo) Sys() any           { return nil }

func VStat(name string) (os.FileInfo, error) {
	if vtoolong(vabs(name)) {
		return nil, perr("stat", name, errNameTooLong)
	}
	p, err := vfollow(vabs(name))
	if err != nil {
		return nil, perr("stat", name, err)
	}
	n, ok := vs().names[p]
	if !ok {
		return nil, perr("stat", name, fs.ErrNotExist)
	}
	return VFileInfo{NameV: vbase(vabs(name)), Node: n}, nil
}

// VLstat does not follow a symbolic link in the final component.
func VLstat(name string) (os.FileInfo, error) {
	if vtoolong(vabs(name)) {
		return nil, perr("lstat", name, errNameTooLong)
	}
	n, ok := vs().names[vabs(name)]
	if !ok {
		return nil, perr("lstat", name, fs.ErrNotExist)
	}
	return VFileInfo{NameV: vbase(vabs(name)), Node: n}, nil
}

// VSymlink creates newName as a symbolic link to oldName (the target need not exist).
func VSymlink(oldName, newName string) error {
	s := vs()
	p := vabs(newName)
	if _, exists := s.names[p]; exists {
		return &os.LinkError{Op: "symlink", Old: oldName, New: newName, Err: fs.ErrExist}
	}
	if n, ok := s.names[vdir(p)]; !ok || !n.Dir {
		return &os.LinkError{Op: "symlink", Old: oldName, New: newName, Err: fs.ErrNotExist}
	}
	s.mk(p, &VInode{Mode: fs.ModeSymlink | 0o777, Link: oldName})
	return nil
}

func VReadlink(name string) (string, error) {
	n, ok := vs().names[vabs(name)]
	if !ok {
		return "", perr("readlink", name, fs.ErrNotExist)
	}
	if n.Link == "" {
		return "", perr("readlink", name, errInval)
	}
	return n.Link, nil
}

func VSameFile(a, b os.FileInfo) bool {
	x, ok1 := a.(VFileInfo)
	y, ok2 := b.(VFileInfo)
	return ok1 && ok2 && x.Node == y.Node
}

func VRemove(name string) error {
	s := vs()
	p := vabs(name)
	if vtoolong(p) {
		return perr("remove", name, errNameTooLong)
	}
	n, ok := s.names[p]
	if !ok {
		return perr("remove", name, fs.ErrNotExist)
	}
	if n.Dir {
		for q := range s.names {
			if q != p && vdir(q) == p {
				return perr("remove", name, errNotEmpty)
			}
		}
	}
	delete(s.names, p)
	return nil
}

func VRemoveAll(name string) error {
	s := vs()
	p := vabs(name)
	for q := range s.names {
		if q == p || (len(q) > len(p) && q[:len(p)] == p && q[len(p)] == '/') {
			delete(s.names, q)
		}
	}
	return nil
}

func VRename(oldName, newName string) error {
	s := vs()
	po, pn := vabs(oldName), vabs(newName)
	if vtoolong(po) || vtoolong(pn) {
		return &os.LinkError{Op: "rename", Old: oldName, New: newName, Err: errNameTooLong}
	}
	n, ok := s.names[po]
	if !ok {
		return &os.LinkError{Op: "rename", Old: oldName, New: newName, Err: fs.ErrNotExist}
	}
	if parent, ok := s.names[vdir(pn)]; !ok || !parent.Dir {
		return &os.LinkError{Op: "rename", Old: oldName, New: newName, Err: fs.ErrNotExist}
	}
	if dst, ok := s.names[pn]; ok && dst.Dir != n.Dir {
		return &os.LinkError{Op: "rename", Old: oldName, New: newName, Err: errIsDir}
	}
	if po == pn {
		return nil
	}
	delete(s.names, po)
	if _, existed := s.names[pn]; !existed {
		s.order = append(s.order, pn)
	}
	s.names[pn] = n
	return nil
}

func VLink(oldName, newName string) error {
	s := vs()
	n, ok := s.names[vabs(oldName)]
	if !ok {
		return &os.LinkError{Op: "link", Old: oldName, New: newName, Err: fs.ErrNotExist}
	}
	if _, exists := s.names[vabs(newName)]; exists {
		return &os.LinkError{Op: "link", Old: oldName, New: newName, Err: fs.ErrExist}
	}
	s.order = append(s.order, vabs(newName))
	s.names[vabs(newName)] = n
	return nil
}

func VChmod(name string, mode os.FileMode) error {
	p, err := vfollow(vabs(name))
	if err != nil {
		return perr("chmod", name, err)
	}
	n, ok := vs().names[p]
	if !ok {
		return perr("chmod", name, fs.ErrNotExist)
	}
	n.Mode = n.Mode&^fs.ModePerm | mode.Perm()
	return nil
}

type VDirEntry struct{ fi VFileInfo }

func (d VDirEntry) Name() string               { return d.fi.NameV }
func (d VDirEntry) IsDir() bool                { return d.fi.Node.Dir }
func (d VDirEntry) Type() fs.FileMode          { return d.fi.Node.Mode.Type() }
func (d VDirEntry) Info() (fs.FileInfo, error) { return d.fi, nil }

func VReadDir(name string) ([]os.DirEntry, error) {
	s := vs()
	p := vabs(name)
	n, ok := s.names[p]
	if !ok {
		return nil, perr("open", name, fs.ErrNotExist)
	}
	if !n.Dir {
		return nil, perr("readdir", name, errNotDir)
	}
	var names []string
	for _, q := range s.order {
		if c, ok := s.names[q]; ok && c != nil && q != p && vdir(q) == p {
			dup := false
			for _, x := range names {
				if x == q {
					dup = true
				}
			}
			if !dup {
				names = append(names, q)
			}
		}
	}
	// sort by name (insertion sort; listings are short)
	for i := 1; i < len(names); i++ {
		for j := i; j > 0 && names[j] < names[j-1]; j-- {
			names[j], names[j-1] = names[j-1], names[j]
		}
	}
	var out []os.DirEntry
	for _, q := range names {
		out = append(out, VDirEntry{VFileInfo{NameV: vbase(q), Node: s.names[q]}})
	}
	return out, nil
}

func VReadFile(name string) ([]byte, error) {
	p, err := vfollow(vabs(name))
	if err != nil {
		return nil, perr("open", name, err)
	}
	n, ok := vs().names[p]
	if !ok {
		return nil, perr("open", name, fs.ErrNotExist)
	}
	if n.Dir {
		return nil, perr("read", name, errIsDir)
	}
	out := make([]byte, len(n.Data))
	copy(out, n.Data)
	return out, nil
}

func VWriteFile(name string, data []byte, perm os.FileMode) error {
	f, err := VOpenFile(name, os.O_WRONLY|os.O_CREATE|os.O_TRUNC, perm)
	if err != nil {
		return err
	}
	_, err = VFileWrite(f, data)
	if err1 := VFileClose(f); err1 != nil && err == nil {
		err = err1
	}
	return err
}

func VGetwd() (string, error) { return "/vtmp", nil }

// ---- *os.File methods ----

func vh(f *os.File, op string) (*VHandle, error) {
	if f == nil {
		return nil, os.ErrInvalid
	}
	h, ok := vs().handles[f]
	if !ok {
		return nil, os.ErrInvalid
	}
	if h.Closed {
		return nil, perr(op, h.Name, os.ErrClosed)
	}
	return h, nil
}

func VFileName(f *os.File) string {
	if h, ok := vs().handles[f]; ok {
		return h.Name
	}
	return ""
}

func VFileClose(f *os.File) error {
	h, err := vh(f, "close")
	if err != nil {
		return err
	}
	h.Closed = true
	return nil
}

func VFileWrite(f *os.File, b []byte) (int, error) {
	h, err := vh(f, "write")
	if err != nil {
		return 0, err
	}
	if !h.Write {
		return 0, perr("write", h.Name, os.ErrPermission)
	}
	if h.Append {
		h.Off = int64(len(h.Node.Data))
	}
	for int64(len(h.Node.Data)) < h.Off {
		h.Node.Data = append(h.Node.Data, 0)
	}
	for i, c := range b {
		pos := int(h.Off) + i
		if pos < len(h.Node.Data) {
			h.Node.Data[pos] = c
		} else {
			h.Node.Data = append(h.Node.Data, c)
		}
	}
	h.Off += int64(len(b))
	return len(b), nil
}

func VFileWriteString(f *os.File, s string) (int, error) { return VFileWrite(f, []byte(s)) }

func VFileRead(f *os.File, b []byte) (int, error) {
	h, err := vh(f, "read")
	if err != nil {
		return 0, err
	}
	if !h.Read {
		return 0, perr("read", h.Name, os.ErrPermission)
	}
	if h.Off >= int64(len(h.Node.Data)) {
		if len(b) == 0 {
			return 0, nil
		}
		return 0, io.EOF
	}
	n := copy(b, h.Node.Data[h.Off:])
	h.Off += int64(n)
	return n, nil
}

func VFileReadAt(f *os.File, b []byte, off int64) (int, error) {
	h, err := vh(f, "read")
	if err != nil {
		return 0, err
	}
	if off < 0 {
		return 0, perr("readat", h.Name, errInval)
	}
	if off >= int64(len(h.Node.Data)) {
		return 0, io.EOF
	}
	n := copy(b, h.Node.Data[off:])
	if n < len(b) {
		return n, io.EOF
	}
	return n, nil
}

func VFileSeek(f *os.File, offset int64, whence int) (int64, error) {
	h, err := vh(f, "seek")
	if err != nil {
		return 0, err
	}
	var base int64
	switch whence {
	case io.SeekStart:
	case io.SeekCurrent:
		base = h.Off
	case io.SeekEnd:
		base = int64(len(h.Node.Data))
	default:
		return 0, perr("seek", h.Name, errInval)
	}
	if base+offset < 0 {
		return 0, perr("seek", h.Name, errInval)
	}
	h.Off = base + offset
	return h.Off, nil
}

func VFileStat(f *os.File) (os.FileInfo, error) {
	h, err := vh(f, "stat")
	if err != nil {
		return nil, err
	}
	return VFileInfo{NameV: vbase(h.Name), Node: h.Node}, nil
}

func VFileChmod(f *os.File, mode os.FileMode) error {
	h, err := vh(f, "chmod")
	if err != nil {
		return err
	}
	h.Node.Mode = h.Node.Mode&^fs.ModePerm | mode.Perm()
	return nil
}

func VFileSync(f *os.File) error {
	_, err := vh(f, "sync")
	return err
}

func VFileTruncate(f *os.File, size int64) error {
	h, err := vh(f, "truncate")
	if err != nil {
		return err
	}
	if size < int64(len(h.Node.Data)) {
		h.Node.Data = h.Node.Data[:size]
	}
	for int64(len(h.Node.Data)) < size {
		h.Node.Data = append(h.Node.Data, 0)
	}
	return nil
}

// VOpenHandles reports the number of handles that were opened and not closed (leak check).
func VOpenHandles() int {
	n := 0
	for _, h := range vs().handles {
		if !h.Closed {
			n++
		}
	}
	return n
}

// VAbs is the model of filepath.Abs (working directory /vtmp).
func VAbs(p string) string { return vabs(p) }

func VFileReadDir(f *os.File, n int) ([]os.DirEntry, error) {
	h, err := vh(f, "readdir")
	if err != nil {
		return nil, err
	}
	ents, err := VReadDir(h.Name)
	if err != nil {
		return nil, err
	}
	if n > 0 {
		start := int(h.Off)
		if start >= len(ents) {
			return nil, io.EOF
		}
		end := start + n
		if end > len(ents) {
			end = len(ents)
		}
		h.Off = int64(end)
		return ents[start:end], nil
	}
	return ents, nil
}

func VFileReaddirnames(f *os.File, n int) ([]string, error) {
	ents, err := VFileReadDir(f, n)
	if err != nil {
		return nil, err
	}
	var names []string
	for _, e := range ents {
		names = append(names, e.Name())
	}
	return names, nil
}

func VFileReaddir(f *os.File, n int) ([]os.FileInfo, error) {
	ents, err := VFileReadDir(f, n)
	if err != nil {
		return nil, err
	}
	var out []os.FileInfo
	for _, e := range ents {
		fi, _ := e.Info()
		out = append(out, fi)
	}
	return out, nil
}

// VFileReadFrom / VFileWriteTo: the generic copy loops behind (*os.File).ReadFrom / WriteTo (the real ones
// try copy_file_range / splice first, which is invisible at this level).
func VFileReadFrom(f *os.File, r io.Reader) (int64, error) {
	var total int64
	buf := make([]byte, 64)
	for {
		n, err := r.Read(buf)
		if n > 0 {
			w, werr := VFileWrite(f, buf[:n])
			total += int64(w)
			if werr != nil {
				return total, werr
			}
		}
		if err == io.EOF {
			return total, nil
		}
		if err != nil {
			return total, err
		}
	}
}

func VFileWriteTo(f *os.File, w io.Writer) (int64, error) {
	var total int64
	buf := make([]byte, 64)
	for {
		n, err := VFileRead(f, buf)
		if n > 0 {
			m, werr := w.Write(buf[:n])
			total += int64(m)
			if werr != nil {
				return total, werr
			}
		}
		if err == io.EOF {
			return total, nil
		}
		if err != nil {
			return total, err
		}
	}
}
