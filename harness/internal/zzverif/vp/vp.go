// Package vp is the harness support API.
//
// Under the symbolic engine (gosym) every function below is intercepted: draws
// become SMT variables, Assume/Assert become solver queries. Compiled natively
// (go test -overlay) the same functions replay a recorded vector of draws
// (VP_REPLAY) or draw pseudo-random values and record them (VP_RANDOM), so that
// a solver counterexample can be confirmed against the real code and the engine
// can be validated differentially against the native build.
package vp

import (
	"encoding/json"
	"fmt"
	"math/rand"
	"os"
	"strconv"
	"strings"

	_ "github.com/pdfcpu/pdfcpu/internal/zzverif/rt"
)

type draw struct {
	Kind string `json:"kind"`
	W    int    `json:"w"`
	Val  string `json:"val"`
}

type vector struct {
	Draws []draw `json:"draws"`
}

type result struct {
	Harness   string   `json:"harness"`
	Status    string   `json:"status"` // ok | assertfail | assume | panic | exhausted
	Msg       string   `json:"msg"`
	Observes  []string `json:"observes"`
	Draws     []draw   `json:"draws"`
	PanicText string   `json:"panic_text,omitempty"`
}

type assertFailed struct{ msg string }
type assumeFailed struct{}
type exhausted struct{}

var st struct {
	replay   []draw
	pos      int
	rnd      *rand.Rand
	recorded []draw
	observes []string
	bounds   map[string]int
	harness  string
}

func next(kind string, w int) uint64 {
	var v uint64
	if st.rnd != nil {
		v = randomValue(w)
	} else {
		if st.pos >= len(st.replay) {
			panic(exhausted{})
		}
		d := st.replay[st.pos]
		st.pos++
		x, err := strconv.ParseUint(d.Val, 10, 64)
		if err != nil {
			panic("vp: bad replay value " + d.Val)
		}
		v = x
	}
	if w > 0 && w < 64 {
		v &= (uint64(1) << uint(w)) - 1
	}
	if w == 0 {
		v &= 1
	}
	st.recorded = append(st.recorded, draw{Kind: kind, W: w, Val: strconv.FormatUint(v, 10)})
	return v
}

func randomValue(w int) uint64 {
	r := st.rnd
	switch r.Intn(8) {
	case 0:
		return 0
	case 1:
		return ^uint64(0)
	case 2:
		return uint64(r.Intn(4))
	case 3:
		if w > 1 {
			return uint64(1) << uint(w-1)
		}
		return 1
	case 4:
		// interesting bytes for PDF syntax
		s := "()\\<>[]{}/%# \n\r\t\x00\x7f#0123456789abcdefABCDEFnrtbf+-.lDZ'"
		return uint64(s[r.Intn(len(s))])
	}
	return r.Uint64()
}

func Byte() byte     { return byte(next("u8", 8)) }
func Uint8() uint8   { return uint8(next("u8", 8)) }
func Int8() int8     { return int8(next("i8", 8)) }
func Uint16() uint16 { return uint16(next("u16", 16)) }
func Int16() int16   { return int16(next("i16", 16)) }
func Uint32() uint32 { return uint32(next("u32", 32)) }
func Int32() int32   { return int32(next("i32", 32)) }
func Rune() rune     { return rune(next("i32", 32)) }
func Uint64() uint64 { return next("u64", 64) }
func Int64() int64   { return int64(next("i64", 64)) }
func Int() int       { return int(next("i64", 64)) }
func Uint() uint     { return uint(next("u64", 64)) }
func Bool() bool     { return next("bool", 0) != 0 }

func Bytes(n int) []byte {
	b := make([]byte, n)
	for i := range b {
		b[i] = Byte()
	}
	return b
}

func String(n int) string { return string(Bytes(n)) }

// IntIn returns an integer in [lo,hi] as ONE symbolic value (no fork): under the
// engine it is a fresh 64-bit variable constrained to the range.
func IntIn(lo, hi int) int {
	if st.rnd != nil {
		var v int
		switch st.rnd.Intn(4) {
		case 0:
			v = lo
		case 1:
			v = hi
		default:
			v = lo + int(st.rnd.Int63n(int64(hi)-int64(lo)+1))
		}
		st.recorded = append(st.recorded, draw{Kind: "i64", W: 64, Val: strconv.FormatUint(uint64(int64(v)), 10)})
		return v
	}
	v := int(next("i64", 64))
	if v < lo || v > hi {
		panic(assumeFailed{})
	}
	return v
}

// IntRange returns an integer in [lo,hi]; the engine forks once per value.
func IntRange(lo, hi int) int {
	if lo > hi {
		panic(assumeFailed{})
	}
	var v int
	if st.rnd != nil {
		v = lo + st.rnd.Intn(hi-lo+1)
	} else {
		if st.pos >= len(st.replay) {
			panic(exhausted{})
		}
		d := st.replay[st.pos]
		st.pos++
		x, _ := strconv.ParseUint(d.Val, 10, 64)
		v = int(int64(x))
		if v < lo || v > hi {
			panic(assumeFailed{})
		}
	}
	st.recorded = append(st.recorded, draw{Kind: "choice", W: 64, Val: strconv.FormatUint(uint64(int64(v)), 10)})
	return v
}

// Choice returns an integer in [0,n).
func Choice(n int) int { return IntRange(0, n-1) }

// Concretize makes the engine fork over the feasible values of x.
func Concretize(x int) int { return x }

// Bound reads a tier-dependent constant supplied by the check driver.
func Bound(name string) int {
	v, ok := st.bounds[name]
	if !ok {
		panic("vp: bound " + name + " not supplied")
	}
	return v
}

// Assume states a precondition; paths violating it are discarded.
func Assume(c bool) {
	if !c {
		panic(assumeFailed{})
	}
}

// Assert states the property.
func Assert(c bool, msg string) {
	if !c {
		panic(assertFailed{msg})
	}
}

// Known attaches the predicate of a known finding (listed in known_findings.json) to this path.
func Known(id string, pred bool) {}

// Observe records an intermediate value for engine-vs-native differential validation.
func Observe(name string, v interface{}) {
	st.observes = append(st.observes, name+"="+obs(v))
}

// And, Or, Implies, IteInt, IteByte are branch-free under the engine (no path fork).
func And(a, b bool) bool     { return a && b }
func Or(a, b bool) bool      { return a || b }
func Implies(a, b bool) bool { return !a || b }
func IteInt(c bool, a, b int) int {
	if c {
		return a
	}
	return b
}
func IteByte(c bool, a, b byte) byte {
	if c {
		return a
	}
	return b
}

// Fork returns c; under the engine the path forks on c (never if-converted), so the result is concrete.
func Fork(c bool) bool { return c }

// RegexDiffWitness: under the engine the pattern of re (with MatchString search semantics) is compared, as
// a regular language, with the SMT-LIB RegLan grammar; if they differ a witness string is returned.
// Natively the recorded witness is replayed (random mode: no witness).
func RegexDiffWitness(re interface{ MatchString(string) bool }, grammar string) (string, bool) {
	if st.rnd != nil {
		st.recorded = append(st.recorded, draw{Kind: "bool", W: 0, Val: "0"}, draw{Kind: "choice", W: 64, Val: "0"})
		return "", false
	}
	differ := next("bool", 0) != 0
	n := int(next("choice", 64))
	b := make([]byte, n)
	for i := range b {
		b[i] = byte(next("u8", 8))
	}
	return string(b), differ
}

// Harness returns the name of the harness that is running natively (used by generated stub wrappers).
func Harness() string { return st.harness }

var stubDepth = map[string]int{}

// EnterStub / LeaveStub guard generated native stub wrappers against re-entry, so that a stub can call the
// function it replaces (the nested call reaches the original, as under the engine).
func EnterStub(key string) bool {
	if stubDepth[key] > 0 {
		return false
	}
	stubDepth[key]++
	return true
}
func LeaveStub(key string) { stubDepth[key]-- }

type stopped struct{}

// Stop ends the current path (used after a crash point has been checked).
func Stop() { panic(stopped{}) }

// ConcreteRandom: under the engine, bytes read from crypto/rand.Reader (IVs, salts) are fresh solver
// variables by default; after ConcreteRandom(true) they are a fixed concrete sequence (used where the
// random bytes only multiply paths). Natively a no-op: the real generator runs.
func ConcreteRandom(on bool) {}

// Symbolic reports whether the harness runs under the symbolic engine with symbolic draws.
func Symbolic() bool { return false }

// Unsupported marks a path the harness cannot express; the engine fails closed.
func Unsupported(msg string) { panic("vp: unsupported: " + msg) }

func obs(v interface{}) string {
	switch x := v.(type) {
	case nil:
		return "<nil>"
	case bool:
		return fmt.Sprint(x)
	case int:
		return strconv.FormatUint(uint64(x), 10)
	case int8:
		return strconv.FormatUint(uint64(uint8(x)), 10)
	case int16:
		return strconv.FormatUint(uint64(uint16(x)), 10)
	case int32:
		return strconv.FormatUint(uint64(uint32(x)), 10)
	case int64:
		return strconv.FormatUint(uint64(x), 10)
	case uint:
		return strconv.FormatUint(uint64(x), 10)
	case uint8:
		return strconv.FormatUint(uint64(x), 10)
	case uint16:
		return strconv.FormatUint(uint64(x), 10)
	case uint32:
		return strconv.FormatUint(uint64(x), 10)
	case uint64:
		return strconv.FormatUint(x, 10)
	case string:
		return fmt.Sprintf("%q", x)
	case []byte:
		var sb strings.Builder
		sb.WriteString("[")
		for i, b := range x {
			if i > 0 {
				sb.WriteString(" ")
			}
			sb.WriteString(strconv.Itoa(int(b)))
		}
		sb.WriteString("]")
		return sb.String()
	case float64:
		return fmt.Sprint(x)
	case error:
		return "<error>"
	}
	return fmt.Sprintf("<%T>", v)
}

type testingT interface {
	Logf(format string, args ...interface{})
	Fatalf(format string, args ...interface{})
}

// Main is called from the generated replay test. Environment:
//
//	VP_HARNESS  name of the harness to run
//	VP_REPLAY   path of a draw vector to replay, or
//	VP_RANDOM   seed for random draws
//	VP_BOUNDS   NAME=v,NAME=v
//	VP_OUT      where to write the result json
func Main(t testingT, harnesses map[string]func()) {
	name := os.Getenv("VP_HARNESS")
	f, ok := harnesses[name]
	if !ok {
		t.Fatalf("vp: unknown harness %q", name)
	}
	st.harness = name
	st.bounds = map[string]int{}
	for _, kv := range strings.Split(os.Getenv("VP_BOUNDS"), ",") {
		if p := strings.SplitN(kv, "=", 2); len(p) == 2 {
			v, _ := strconv.Atoi(p[1])
			st.bounds[p[0]] = v
		}
	}
	var results []result
	if rp := os.Getenv("VP_REPLAY"); rp != "" {
		data, err := os.ReadFile(rp)
		if err != nil {
			t.Fatalf("vp: %v", err)
		}
		var v vector
		if err := json.Unmarshal(data, &v); err != nil {
			t.Fatalf("vp: %v", err)
		}
		st.replay = v.Draws
		results = append(results, run(name, f))
	} else {
		seed, _ := strconv.ParseInt(os.Getenv("VP_RANDOM"), 10, 64)
		count, _ := strconv.Atoi(os.Getenv("VP_COUNT"))
		if count < 1 {
			count = 1
		}
		for i := 0; i < count; i++ {
			st.rnd = rand.New(rand.NewSource(seed + int64(i)))
			st.pos, st.recorded, st.observes = 0, nil, nil
			results = append(results, run(name, f))
		}
	}
	data, _ := json.MarshalIndent(results, "", " ")
	if out := os.Getenv("VP_OUT"); out != "" {
		if err := os.WriteFile(out, data, 0o644); err != nil {
			t.Fatalf("vp: %v", err)
		}
	}
	for _, res := range results {
		t.Logf("VP-RESULT harness=%s status=%s msg=%s", name, res.Status, res.Msg)
	}
}

func run(name string, f func()) (res result) {
	res.Harness = name
	res.Status = "ok"
	defer func() {
		res.Observes = st.observes
		res.Draws = st.recorded
		if r := recover(); r != nil {
			switch x := r.(type) {
			case assertFailed:
				res.Status = "assertfail"
				res.Msg = x.msg
			case assumeFailed:
				res.Status = "assume"
			case exhausted:
				res.Status = "exhausted"
			case stopped:
				res.Status = "ok"
			default:
				res.Status = "panic"
				res.Msg = fmt.Sprint(r)
			}
		}
	}()
	f()
	return
}
