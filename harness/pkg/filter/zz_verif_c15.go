package filter

import (
	"bytes"
	"io"

	"github.com/pdfcpu/pdfcpu/internal/zzverif/vp"
)

var verifEncodable = []string{ASCIIHex, RunLength}

func verifRoundTrip(names []string, x []byte) {
	// encode through the pipeline in order, decode in reverse order
	var r io.Reader = bytes.NewReader(x)
	for _, n := range names {
		f, err := NewFilter(n, nil)
		vp.Assert(err == nil, "NewFilter failed for an encodable filter")
		r, err = f.Encode(r)
		vp.Assert(err == nil, "Encode failed")
	}
	for i := len(names) - 1; i >= 0; i-- {
		f, _ := NewFilter(names[i], nil)
		var err error
		r, err = f.Decode(r)
		vp.Assert(err == nil, "Decode failed on the encoder's own output")
	}
	got, err := io.ReadAll(r)
	vp.Assert(err == nil, "reading the decoded data failed")
	vp.Assert(len(got) == len(x), "decoded length differs from the original")
	for i := range x {
		vp.Assert(got[i] == x[i], "decoded bytes differ from the original")
	}
}

// VerifFilterRoundTrip: Decode(Encode(x)) == x for every byte string of length <= N and every
// pipeline of 1..PIPE filters out of ASCIIHex, RunLength (ASCII85: see VerifASCII85RoundTrip).
func VerifFilterRoundTrip() {
	plen := vp.IntRange(1, vp.Bound("PIPE"))
	names := make([]string, plen)
	for i := range names {
		names[i] = verifEncodable[vp.Choice(len(verifEncodable))]
	}
	n := vp.IntRange(0, vp.Bound("N"))
	x := vp.Bytes(n)
	verifRoundTrip(names, x)
}

// VerifRunLengthRuns: run-structured inputs b1^k1 b2^k2 b3^k3 (k <= 130, crossing the 128-byte run limit)
// with symbolic byte values survive RunLength encode/decode.
func VerifRunLengthRuns() {
	var x []byte
	runs := vp.IntRange(1, 3)
	for r := 0; r < runs; r++ {
		b := vp.Byte()
		k := []int{1, 2, 3, 127, 128, 129, 130}[vp.Choice(7)]
		for i := 0; i < k; i++ {
			x = append(x, b)
		}
	}
	verifRoundTrip([]string{RunLength}, x)
}

// VerifASCII85RoundTrip: ASCII85 alone on 0..N fully symbolic bytes, in the integer encoding
// (base-85 digit arithmetic is multiplication/division by constants).
func VerifASCII85RoundTrip() {
	n := vp.IntRange(0, vp.Bound("N"))
	verifRoundTrip([]string{ASCII85}, vp.Bytes(n))
}

// VerifASCII85Pipelines: ASCII85 combined with ASCIIHex / RunLength / itself.
func VerifASCII85Pipelines() {
	var names []string
	switch vp.Choice(4) {
	case 0:
		names = []string{ASCII85, ASCIIHex}
	case 1:
		names = []string{ASCIIHex, ASCII85}
	case 2:
		names = []string{RunLength, ASCII85}
	case 3:
		names = []string{ASCII85, ASCII85}
	}
	n := vp.IntRange(0, vp.Bound("N"))
	verifRoundTrip(names, vp.Bytes(n))
}
