package filter

import (
	"bytes"
	"io"

	"github.com/pdfcpu/pdfcpu/internal/zzverif/vp"
)

// ---- independent references (RFC 2083 section 6, TIFF 6.0 section 14) ----

func verifAbs(x int) int {
	if x < 0 {
		return -x
	}
	return x
}

// verifPaeth is the PaethPredictor function exactly as printed in RFC 2083 section 6.6.
func verifPaeth(a, b, c byte) byte {
	p := int(a) + int(b) - int(c)
	pa := verifAbs(p - int(a))
	pb := verifAbs(p - int(b))
	pc := verifAbs(p - int(c))
	if pa <= pb && pa <= pc {
		return a
	} else if pb <= pc {
		return b
	}
	return c
}

// verifRefPNG un-filters rows of rowLen bytes (filter-type byte + n data bytes); ok=false for an undefined filter type.
func verifRefPNG(data []byte, rowLen, bpp int) ([]byte, bool) {
	n := rowLen - 1
	prior := make([]byte, n)
	var out []byte
	for r := 0; (r+1)*rowLen <= len(data); r++ {
		ft := data[r*rowLen]
		mode := 5
		switch {
		case vp.Fork(ft == 0):
			mode = 0
		case vp.Fork(ft == 1):
			mode = 1
		case vp.Fork(ft == 2):
			mode = 2
		case vp.Fork(ft == 3):
			mode = 3
		case vp.Fork(ft == 4):
			mode = 4
		}
		if mode == 5 {
			return nil, false
		}
		cur := make([]byte, n)
		for i := 0; i < n; i++ {
			x := data[r*rowLen+1+i]
			var a, b, c byte
			if i >= bpp {
				a = cur[i-bpp]
				c = prior[i-bpp]
			}
			b = prior[i]
			switch mode {
			case 0:
				cur[i] = x
			case 1:
				cur[i] = x + a
			case 2:
				cur[i] = x + b
			case 3:
				cur[i] = x + byte((int(a)+int(b))/2)
			case 4:
				cur[i] = x + verifPaeth(a, b, c)
			}
		}
		out = append(out, cur...)
		prior = cur
	}
	return out, true
}

func verifGetSample(row []byte, k, bpc int) int {
	bit := k * bpc
	switch bpc {
	case 16:
		return int(row[bit/8])<<8 | int(row[bit/8+1])
	case 8:
		return int(row[bit/8])
	}
	shift := 8 - bpc - bit%8
	return int(row[bit/8]>>uint(shift)) & (1<<uint(bpc) - 1)
}

func verifSetSample(row []byte, k, bpc, v int) {
	bit := k * bpc
	switch bpc {
	case 16:
		row[bit/8] = byte(v >> 8)
		row[bit/8+1] = byte(v)
		return
	case 8:
		row[bit/8] = byte(v)
		return
	}
	shift := uint(8 - bpc - bit%8)
	mask := byte(1<<uint(bpc)-1) << shift
	row[bit/8] = row[bit/8]&^mask | byte(v)<<shift&mask
}

// verifRefTIFF undoes horizontal differencing per sample of bpc bits (TIFF 6.0 section 14).
func verifRefTIFF(data []byte, rowSize, colors, bpc, columns int) []byte {
	out := make([]byte, len(data))
	copy(out, data)
	for r := 0; (r+1)*rowSize <= len(out); r++ {
		row := out[r*rowSize : (r+1)*rowSize]
		for k := colors; k < columns*colors; k++ {
			v := (verifGetSample(row, k, bpc) + verifGetSample(row, k-colors, bpc)) & (1<<uint(bpc) - 1)
			verifSetSample(row, k, bpc, v)
		}
	}
	return out
}

var verifPredictors = []int{2, 10, 11, 12, 13, 14, 15}
var verifBPC = []int{1, 2, 4, 8, 16}

// verifRefRow: RFC 2083 reconstruction of one row given the reconstructed prior row (both without filter byte).
func verifRefRow(mode int, prior, raw []byte, bpp int) []byte {
	n := len(raw)
	cur := make([]byte, n)
	for i := 0; i < n; i++ {
		x := raw[i]
		var a, b, c byte
		if i >= bpp {
			a = cur[i-bpp]
			c = prior[i-bpp]
		}
		b = prior[i]
		switch mode {
		case 0:
			cur[i] = x
		case 1:
			cur[i] = x + a
		case 2:
			cur[i] = x + b
		case 3:
			cur[i] = x + byte((int(a)+int(b))/2)
		case 4:
			cur[i] = x + verifPaeth(a, b, c)
		}
	}
	return cur
}

// VerifPredictorRow is the inductive step: from an ARBITRARY reconstructed prior row and an arbitrary
// current row (filter-type byte included, all 256 values), processRow yields exactly the RFC 2083 /
// TIFF 6.0 reconstruction, or an error exactly for undefined filter types. One step from an arbitrary
// prior row covers images of any number of rows.
func VerifPredictorRow() {
	predictor := verifPredictors[vp.Choice(len(verifPredictors))]
	colors := vp.IntRange(1, vp.Bound("COLORS"))
	bpc := verifBPC[vp.Choice(len(verifBPC))]
	columns := vp.IntRange(1, vp.Bound("C"))
	rowSize := (colors*bpc*columns + 7) / 8
	bpp := (colors*bpc + 7) / 8
	vp.Known("KF-C17-TIFF-BPC", predictor == 2 && bpc != 8)
	// the unit's own parameter computation must agree with the specification's
	gotRowSize, gotRowLen, gotBpp, err := predictorRowParams(predictor, colors, bpc, columns)
	vp.Assert(err == nil, "predictorRowParams failed for an allowed parameter combination")
	if predictor == 2 {
		vp.Assert(gotRowSize == rowSize && gotRowLen == rowSize, "TIFF predictor: wrong row size")
		raw := vp.Bytes(rowSize)
		cr := make([]byte, rowSize)
		copy(cr, raw)
		pr := vp.Bytes(rowSize)
		out, err := processRow(pr, cr, predictor, colors, gotBpp)
		vp.Assert(err == nil, "TIFF predictor: row processing failed")
		want := verifRefTIFF(raw, rowSize, colors, bpc, columns)
		vp.Assert(len(out) == len(want), "TIFF predictor: wrong output length")
		for i := range want {
			vp.Assert(out[i] == want[i], "TIFF predictor: output differs from TIFF 6.0 horizontal differencing")
		}
		return
	}
	vp.Assert(gotRowSize == rowSize && gotRowLen == rowSize+1 && gotBpp == bpp, "PNG predictor: wrong row size or bytes per pixel")
	prior := vp.Bytes(rowSize) // reconstructed prior row (arbitrary)
	ft := vp.Byte()
	raw := vp.Bytes(rowSize)
	pr := append([]byte{vp.Byte()}, prior...)
	cr := append([]byte{ft}, raw...)
	out, err := processRow(pr, cr, predictor, colors, gotBpp)
	mode := 5
	switch {
	case vp.Fork(ft == 0):
		mode = 0
	case vp.Fork(ft == 1):
		mode = 1
	case vp.Fork(ft == 2):
		mode = 2
	case vp.Fork(ft == 3):
		mode = 3
	case vp.Fork(ft == 4):
		mode = 4
	}
	if mode == 5 {
		vp.Assert(err != nil, "PNG predictor: undefined row filter type accepted")
		return
	}
	vp.Assert(err == nil, "PNG predictor: row processing failed for a defined filter type")
	want := verifRefRow(mode, prior, raw, bpp)
	vp.Assert(len(out) == len(want), "PNG predictor: wrong output length")
	for i := range want {
		vp.Assert(out[i] == want[i], "PNG predictor: output differs from RFC 2083 un-filtering")
	}
}

// VerifPredictorDriver: the row loop (splitting the stream into rows, carrying the reconstructed prior
// row, concatenating outputs, rejecting undefined filter types) on R rows. Row filter types are
// restricted to None, Up and undefined ones here; every filter type is covered by VerifPredictorRow.
func VerifPredictorDriver() {
	predictor := verifPredictors[vp.Choice(len(verifPredictors))]
	colors := vp.IntRange(1, vp.Bound("COLORS"))
	bpc := verifBPC[vp.Choice(len(verifBPC))]
	columns := vp.IntRange(1, vp.Bound("C"))
	rows := vp.IntRange(1, vp.Bound("R"))
	rowSize := (colors*bpc*columns + 7) / 8
	rowLen := rowSize
	if predictor != 2 {
		rowLen++
	}
	bpp := (colors*bpc + 7) / 8
	data := vp.Bytes(rows * rowLen)
	vp.Known("KF-C17-TIFF-BPC", predictor == 2 && bpc != 8)
	if predictor != 2 {
		for r := 0; r < rows; r++ {
			ft := data[r*rowLen]
			vp.Assume(ft == 0 || ft == 2 || ft > 4)
		}
	}
	f := flate{baseFilter{parms: map[string]int{"Predictor": predictor, "Colors": colors, "BitsPerComponent": bpc, "Columns": columns}}}
	in := make([]byte, len(data))
	copy(in, data)
	r, err := f.decodePostProcess(bytes.NewReader(in), -1)
	var want []byte
	if predictor == 2 {
		want = verifRefTIFF(data, rowSize, colors, bpc, columns)
	} else {
		var valid bool
		want, valid = verifRefPNG(data, rowLen, bpp)
		if !valid {
			vp.Assert(err != nil, "PNG predictor: undefined row filter type accepted")
			return
		}
	}
	vp.Assert(err == nil, "predictor decoding failed for an allowed parameter combination")
	got, _ := io.ReadAll(r)
	vp.Assert(len(got) == len(want), "predictor decoding: wrong output length")
	for i := range want {
		vp.Assert(got[i] == want[i], "predictor decoding: output differs from the reference")
	}
}

// VerifPredictorLZW: LZW decoding with a predictor. Every predictor value that validatePredictor
// accepts (2, 10..15) is allowed by ISO 32000 for LZWDecode, so decoding an (empty) LZW stream with
// such parameters must not be rejected because of the parameter combination.
func VerifPredictorLZW() {
	p := vp.IntIn(2, 15)
	vp.Assume(validatePredictor(p) == nil)
	ec := vp.Choice(2)
	vp.Known("KF-C17-LZW-PRED", p > 1)
	f := lzwDecode{baseFilter{parms: map[string]int{"Predictor": p, "EarlyChange": ec, "Columns": 1}}}
	_, err := f.DecodeLength(bytes.NewReader([]byte{0x80, 0x40}), -1) // clear code followed by end-of-data
	vp.Assert(err == nil, "LZW decoding rejected a predictor that the specification allows")
}
