package filter

import (
	"bytes"
	"errors"
	"io"

	"github.com/pdfcpu/pdfcpu/internal/zzverif/vp"
)

var verifRowLimit int64

var errVerifStopRows = errors.New("stop")

// verifRecRows stands in for decodePostProcessRows, whose first act is to allocate two buffers of m
// bytes: m must already be known to fit the decode limit.
func verifRecRows(f flate, r io.Reader, maxLen int64, m, predictor, colors, bytesPerPixel int) (*bytes.Buffer, error) {
	vp.Assert(m >= 1 && int64(m) <= verifRowLimit, "predictor row buffers larger than the decode limit are allocated before any limit check")
	return nil, errVerifStopRows
}

// VerifPredictorRowFitsLimit (C09): for every predictor, /Colors, /BitsPerComponent, /Columns (attacker
// controlled, full int range) and every decode limit >= 1, Flate post-processing reaches the row loop -
// which allocates two row buffers - only with a row length that fits the limit.
//
//verif:stub (github.com/pdfcpu/pdfcpu/pkg/filter.flate).decodePostProcessRows=verifRecRows
func VerifPredictorRowFitsLimit() {
	pred := []int{2, 10, 11, 12, 13, 14, 15}[vp.Choice(7)]
	colors, bpc, cols := vp.Int(), []int{1, 2, 4, 8, 16}[vp.Choice(5)], vp.Int()
	limit := vp.Int64()
	vp.Assume(limit >= 1)
	verifRowLimit = limit
	f := flate{baseFilter{parms: map[string]int{"Predictor": pred, "Colors": colors, "BitsPerComponent": bpc, "Columns": cols}, maxDecodeBytes: limit}}
	_, err := f.decodePostProcess(bytes.NewReader(nil), -1)
	vp.Assert(err != nil, "returned")
}
