package filter

import (
	"bytes"
	"errors"
	"io"

	"github.com/pdfcpu/pdfcpu/internal/zzverif/vp"
)

func verifDecodeAll(name string, parms map[string]int, limit int64, enc []byte) ([]byte, error) {
	f, err := NewFilter(name, parms, limit)
	if err != nil {
		return nil, err
	}
	in := make([]byte, len(enc))
	copy(in, enc)
	r, err := f.Decode(bytes.NewReader(in))
	if err != nil {
		return nil, err
	}
	return io.ReadAll(r)
}

func verifDecodeN(name string, parms map[string]int, enc []byte, n int64) ([]byte, error) {
	f, err := NewFilter(name, parms, -1)
	if err != nil {
		return nil, err
	}
	in := make([]byte, len(enc))
	copy(in, enc)
	r, err := f.DecodeLength(bytes.NewReader(in), n)
	if err != nil {
		return nil, err
	}
	return io.ReadAll(r)
}

// verifAround draws a symbolic value from [min, 3] or from [length-3, length+2] (clipped at min).
func verifAround(length, min int) int64 {
	if vp.Choice(2) == 0 || length <= 3 {
		return int64(vp.IntIn(min, 3))
	}
	return int64(vp.IntIn(length-3, length+2))
}

func verifSameBytes(a, b []byte, msg string) {
	vp.Assert(len(a) == len(b), msg+" (length)")
	for i := range a {
		vp.Assert(a[i] == b[i], msg)
	}
}

// verifLimitContract checks, for one filter and one ARBITRARY encoded input (not only encoder output):
//   - unbounded decoding under limit L >= 1 returns exactly the full decoding when it has at most L bytes,
//     and ErrDecodeLimitExceeded when it is longer (never more than L bytes, never a rejection within the limit);
//   - decoding bounded to n bytes yields the first min(n, len(full)) bytes of the full decoding (the Filter
//     interface promises "at least" n bytes; StreamDict cuts to exactly n), or reports that the data is too short,
//     which is allowed only when n > len(full).
func verifLimitContract(name string, parms map[string]int, enc []byte) {
	full, errFull := verifDecodeAll(name, parms, -1, enc) // negative limit = unlimited
	// limits around the exact decoded length (len(full) is concrete on each path), or small ones
	l := verifAround(len(full), 1)
	got, err := verifDecodeAll(name, parms, l, enc)
	if errFull != nil {
		// undecodable input: the only obligation is the size bound
		if err == nil {
			vp.Assert(int64(len(got)) <= l, "decoding under a limit returned more bytes than the limit")
		}
		return
	}
	if int64(len(full)) <= l {
		vp.Assert(err == nil, "data within the decode limit was rejected")
		verifSameBytes(got, full, "decoding under a sufficient limit differs from the full decoding")
	} else {
		vp.Assert(err != nil, "data longer than the decode limit was accepted")
		vp.Assert(errors.Is(err, ErrDecodeLimitExceeded), "oversized data failed with an error other than the decode-limit error")
	}
	n := verifAround(len(full), 0)
	part, err := verifDecodeN(name, parms, enc, n)
	want := n
	if int64(len(full)) < want {
		want = int64(len(full))
	}
	if err != nil {
		vp.Assert(n > int64(len(full)), "bounded decoding failed although enough data is available")
		return
	}
	vp.Assert(int64(len(part)) >= want, "bounded decoding returned fewer bytes than min(n, full length)")
	vp.Assert(len(part) <= len(full), "bounded decoding returned more bytes than the full decoding")
	for i := 0; i < len(part); i++ {
		vp.Assert(part[i] == full[i], "bounded decoding is not a prefix of the full decoding")
	}
}

// VerifLimitRunLength: arbitrary RunLength-encoded input of <= N bytes (expands up to 128x).
func VerifLimitRunLength() {
	n := vp.IntRange(0, vp.Bound("N"))
	verifLimitContract(RunLength, nil, vp.Bytes(n))
}

// VerifLimitASCIIHex: arbitrary ASCIIHex input of <= N bytes (white space, '>' and invalid digits included).
func VerifLimitASCIIHex() {
	n := vp.IntRange(0, vp.Bound("N"))
	verifLimitContract(ASCIIHex, nil, vp.Bytes(n))
}

// VerifLimitPredictorRows: the Flate post-processing (limit checks per row, bounded row loop) below zlib,
// on an arbitrary inflated stream; PNG Up predictor rows of COLS bytes.
func VerifLimitPredictorRows() {
	cols := vp.IntRange(1, vp.Bound("COLS"))
	n := vp.IntRange(0, vp.Bound("N"))
	data := vp.Bytes(n)
	for r := 0; r*(cols+1) < n; r++ {
		vp.Assume(data[r*(cols+1)] <= 2) // None, Sub, Up rows
	}
	parms := map[string]int{"Predictor": 12, "Columns": cols}
	run := func(limit, maxLen int64) ([]byte, error) {
		f := flate{baseFilter{parms: parms, maxDecodeBytes: limit}}
		in := make([]byte, len(data))
		copy(in, data)
		r, err := f.decodePostProcess(bytes.NewReader(in), maxLen)
		if err != nil {
			return nil, err
		}
		return io.ReadAll(r)
	}
	full, errFull := run(-1, -1)
	l := verifAround(len(full), 1)
	got, err := run(l, -1)
	if errFull != nil {
		if err == nil {
			vp.Assert(int64(len(got)) <= l, "decoding under a limit returned more bytes than the limit")
		}
		return
	}
	if int64(len(full)) <= l && int64(cols+1) <= l {
		vp.Assert(err == nil, "data within the decode limit was rejected")
		verifSameBytes(got, full, "decoding under a sufficient limit differs from the full decoding")
	} else if int64(len(full)) > l {
		vp.Assert(err != nil, "data longer than the decode limit was accepted")
		vp.Assert(errors.Is(err, ErrDecodeLimitExceeded), "oversized data failed with an error other than the decode-limit error")
	}
	nn := verifAround(len(full), 0)
	part, err := run(-1, nn)
	want := nn
	if int64(len(full)) < want {
		want = int64(len(full))
	}
	if err != nil {
		vp.Assert(nn > int64(len(full)), "bounded decoding failed although enough data is available")
		return
	}
	vp.Assert(int64(len(part)) >= want, "bounded decoding returned fewer bytes than min(n, full length)")
	vp.Assert(len(part) <= len(full), "bounded decoding returned more bytes than the full decoding")
	for i := 0; i < len(part); i++ {
		vp.Assert(part[i] == full[i], "bounded decoding is not a prefix of the full decoding")
	}
}
