package cli

import (
	"os"
	"sort"
	"strings"

	"github.com/pdfcpu/pdfcpu/internal/zzverif/vp"
	"github.com/pdfcpu/pdfcpu/pkg/api"
	"github.com/pdfcpu/pdfcpu/pkg/pdfcpu/model"
)

func verifCLIMust(err error) {
	if err != nil {
		vp.Unsupported("harness set-up failed: " + err.Error())
	}
}

func verifCLIListing(dir string) []string {
	ents, err := os.ReadDir(dir)
	verifCLIMust(err)
	var names []string
	for _, e := range ents {
		names = append(names, e.Name())
	}
	sort.Strings(names)
	return names
}

func verifCLIFileIs(path, content string, mode os.FileMode) bool {
	b, err := os.ReadFile(path)
	if err != nil || string(b) != content {
		return false
	}
	fi, err := os.Stat(path)
	return err == nil && fi.Mode().Perm() == mode
}

// VerifStreamInOut (C01 on failure, C03 on success, for the CLI's stream plumbing:
// streamInOutForOperation, readSeekerFromStdin, createStreamOutput, streamInOutFinalizer.finalize,
// temporaryInput.finalize): cli.Optimize with standard input and/or standard output - redirected to
// files of the (interpreted or real) file system - and an output that is new, exists (symbolic content
// and permission bits) or is a symbolic link to an existing file; the processing step succeeds or
// fails after a partial write. On failure a new output does not remain and an existing one keeps
// content and mode; on success the output holds the complete result with the previous mode of an
// existing destination; in both cases the spooled copy of standard input and any staging file are gone
// and the processing step saw the complete input.
//
//verif:stub github.com/pdfcpu/pdfcpu/pkg/api.Optimize=github.com/pdfcpu/pdfcpu/pkg/api.verifCLIStubOptimize
func VerifStreamInOut() {
	dir, err := os.MkdirTemp("", "verifc01cli")
	verifCLIMust(err)
	origIn, origOut, origCreate := os.Stdin, os.Stdout, createTemporaryInputFile
	defer func() { os.Stdin, os.Stdout, createTemporaryInputFile = origIn, origOut, origCreate }()
	input := "INPUT-BYTE" + vp.String(1)
	old := "OLD-OUTPU" + vp.String(1)
	api.VerifCLINew = "NEW-COMPLETE-OUTPU" + vp.String(1)
	api.VerifCLIOutcome = vp.IntRange(0, 1)
	api.VerifCLISawInput = ""
	outMode := os.FileMode(vp.IntIn(0, 0o777)) | 0o600
	// spool directory for standard input inside the harness directory, so that leftovers are visible
	spool := dir + "/spool"
	verifCLIMust(os.Mkdir(spool, 0o755))
	createTemporaryInputFile = func(_, pattern string) (*os.File, error) { return os.CreateTemp(spool, pattern) }
	inFile, outFile := "-", ""
	stdinFromFile := vp.Bool()
	if stdinFromFile {
		verifCLIMust(os.WriteFile(dir+"/stdin.bin", []byte(input), 0o600))
		f, err := os.Open(dir + "/stdin.bin")
		verifCLIMust(err)
		os.Stdin = f
	} else {
		inFile = dir + "/in.pdf"
		verifCLIMust(os.WriteFile(inFile, []byte(input), 0o600))
	}
	dest, destExists := "", false
	scenario := vp.IntRange(0, 3)
	if !stdinFromFile {
		scenario = 3 // a regular input is only streamed when the output is standard output
	}
	switch scenario {
	case 0:
		outFile = dir + "/out.pdf"
		dest = outFile
	case 1:
		outFile = dir + "/out.pdf"
		verifCLIMust(os.WriteFile(outFile, []byte(old), 0o600))
		verifCLIMust(os.Chmod(outFile, outMode))
		dest, destExists = outFile, true
	case 2:
		real := dir + "/real-out.pdf"
		verifCLIMust(os.WriteFile(real, []byte(old), 0o600))
		verifCLIMust(os.Chmod(real, outMode))
		outFile = dir + "/sym-out.pdf"
		verifCLIMust(os.Symlink(real, outFile))
		dest, destExists = outFile, true
	case 3:
		outFile = "-"
		f, err := os.OpenFile(dir+"/stdout.bin", os.O_WRONLY|os.O_CREATE|os.O_TRUNC, 0o600)
		verifCLIMust(err)
		os.Stdout = f
	}
	initial := verifCLIListing(dir)
	cmd := &Command{Mode: model.OPTIMIZE, InFile: &inFile, OutFile: &outFile, Conf: &model.Configuration{}}
	_, err = Optimize(cmd)
	vp.Assert((err != nil) == (api.VerifCLIOutcome == 1), "the command's result does not reflect the outcome of the processing step")
	vp.Assert(api.VerifCLISawInput == input, "the processing step did not see the complete input")
	vp.Assert(len(verifCLIListing(spool)) == 0, "the spooled copy of standard input was left behind")
	now := verifCLIListing(dir)
	for _, n := range now {
		vp.Assert(!(strings.HasPrefix(n, ".") && strings.Contains(n, ".tmp-")), "a staging file was left behind")
	}
	if outFile == "-" {
		if err == nil {
			b, rerr := os.ReadFile(dir + "/stdout.bin")
			vp.Assert(rerr == nil && string(b) == api.VerifCLINew, "standard output does not hold exactly the complete result")
		}
	} else if err != nil {
		if destExists {
			vp.Assert(verifCLIFileIs(dest, old, outMode), "failed command modified a pre-existing output file")
		} else {
			_, serr := os.Stat(dest)
			vp.Assert(os.IsNotExist(serr), "failed command left a new output file behind")
		}
		vp.Assert(len(now) == len(initial), "failed command changed the directory contents")
	} else {
		if destExists {
			vp.Assert(verifCLIFileIs(dest, api.VerifCLINew, outMode), "destination does not hold the complete output with its previous permission bits")
		} else {
			b, rerr := os.ReadFile(dest)
			vp.Assert(rerr == nil && string(b) == api.VerifCLINew, "new destination does not hold the complete output")
		}
	}
	if !stdinFromFile {
		vp.Assert(verifCLIFileIs(inFile, input, 0o600), "the input file was modified")
	}
	if !vp.Symbolic() {
		os.RemoveAll(dir)
	}
}
