package api

import (
	"github.com/pdfcpu/pdfcpu/internal/zzverif/vp"
	"github.com/pdfcpu/pdfcpu/pkg/pdfcpu/model"
)

// ---- C33, split half: the span arithmetic -------------------------------------------------------
// pageSpan (extract pages from..thru and serialise them) is replaced by a recorder; what is checked is
// which spans the split drivers ask for.

var verifSpans [][2]int

func verifRecordSpan(ctx *model.Context, from, thru int) (*PageSpan, error) {
	verifSpans = append(verifSpans, [2]int{from, thru})
	// the pages a span stands for are those PagesForPageRange lists
	pp := PagesForPageRange(from, thru)
	vp.Assert(len(pp) == thru-from+1 && (len(pp) == 0 || (pp[0] == from && pp[len(pp)-1] == thru)), "PagesForPageRange does not list from..thru")
	return &PageSpan{From: from, Thru: thru}, nil
}

// verifPartition: the recorded spans, in order, are a partition of 1..n into non-empty intervals.
func verifPartition(n int) (bool, string) {
	next := 1
	for _, s := range verifSpans {
		if s[0] != next {
			return false, "a span does not start where the previous one ended (pages lost, duplicated or reordered)"
		}
		if s[1] < s[0] {
			return false, "an empty or reversed span"
		}
		next = s[1] + 1
	}
	if next != n+1 {
		return false, "the spans do not end at the last page"
	}
	return true, ""
}

// VerifSplitSpans (C33): for every page count 1..P and every span (symbolic, any int) pageSpans either
// refuses the span or asks for consecutive spans of exactly `span` pages (the last one possibly
// shorter) that partition 1..PageCount.
//
//verif:stub github.com/pdfcpu/pdfcpu/pkg/api.pageSpan=verifRecordSpan
func VerifSplitSpans() {
	n := vp.IntRange(1, vp.Bound("P"))
	span := vp.IntIn(-2, vp.Bound("P")+2)
	ctx := &model.Context{XRefTable: &model.XRefTable{PageCount: n}}
	verifSpans = nil
	pss, err := pageSpans(ctx, span)
	if err != nil {
		vp.Assert(span <= 0, "a positive span was refused")
		return
	}
	vp.Assert(span >= 1, "a non-positive span was accepted")
	vp.Assert(len(pss) == len(verifSpans), "number of returned spans differs from the number extracted")
	ok, why := verifPartition(n)
	vp.Assert(ok, "split by span: "+why)
	for i, s := range verifSpans {
		if i < len(verifSpans)-1 {
			vp.Assert(s[1]-s[0]+1 == span, "split by span: a span other than the last does not have `span` pages")
		} else {
			vp.Assert(s[1]-s[0]+1 <= span, "split by span: the last span has more than `span` pages")
		}
	}
}

func verifRecordWriteSpan(ctx *model.Context, from, thru int, outPath string) error {
	_, err := verifRecordSpan(ctx, from, thru)
	return err
}

// VerifSplitSpansFiles (C33): the file-writing driver writePageSpans asks for the same partition.
//
//verif:stub github.com/pdfcpu/pdfcpu/pkg/api.writePageSpan=verifRecordWriteSpan
func VerifSplitSpansFiles() {
	n := vp.IntRange(1, vp.Bound("P"))
	span := vp.IntIn(-2, vp.Bound("P")+2)
	ctx := &model.Context{XRefTable: &model.XRefTable{PageCount: n}}
	verifSpans = nil
	if err := writePageSpans(ctx, span, "/out", "f.pdf"); err != nil {
		vp.Assert(span <= 0, "a positive span was refused")
		return
	}
	vp.Assert(span >= 1, "a non-positive span was accepted")
	ok, why := verifPartition(n)
	vp.Assert(ok, "split by span (files): "+why)
}

// VerifSplitAlongPages (C33): for every page count and every list of 1..K page numbers (symbolic, any
// order, duplicates, out of range) writePageSpansSplitAlongPages either refuses the list or partitions
// 1..PageCount with a new part starting exactly at each listed page number that exists in the document.
//
//verif:stub github.com/pdfcpu/pdfcpu/pkg/api.writePageSpan=verifRecordWriteSpan
func VerifSplitAlongPages() {
	n := vp.IntRange(1, vp.Bound("P"))
	k := vp.IntRange(0, vp.Bound("K"))
	nrs := make([]int, k)
	for i := range nrs {
		nrs[i] = vp.IntIn(-1, vp.Bound("P")+3)
	}
	ctx := &model.Context{XRefTable: &model.XRefTable{PageCount: n}}
	verifSpans = nil
	err := writePageSpansSplitAlongPages(ctx, nrs, "/out", "f.pdf")
	if err != nil {
		return
	}
	ok, why := verifPartition(n)
	vp.Assert(ok, "split along pages: "+why)
	// accepted lists are strictly increasing and start at a page >= 2 that exists
	vp.Assert(k >= 1 && nrs[0] >= 2 && nrs[0] <= n, "an invalid page number list was accepted")
	for i := 1; i < k; i++ {
		vp.Assert(nrs[i] > nrs[i-1], "a page number list that is not strictly increasing was accepted")
	}
	// every listed page that exists starts a part, and nothing else does
	for p := 2; p <= n; p++ {
		listed := false
		for _, x := range nrs {
			listed = listed || x == p
		}
		starts := false
		for _, s := range verifSpans {
			starts = starts || s[0] == p
		}
		vp.Assert(listed == starts, "split along pages: the parts do not start exactly at the listed pages")
	}
}
