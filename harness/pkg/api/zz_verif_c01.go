package api

import (
	"errors"
	"io"
	"io/fs"
	"os"
	"path/filepath"
	"sort"
	"strings"

	"github.com/pdfcpu/pdfcpu/internal/zzverif/vp"
	"github.com/pdfcpu/pdfcpu/pkg/pdfcpu/model"
)

// ---------------------------------------------------------------------------------------------
// Fault / crash injection around the operation table that every *File function of package api uses
// (defaultFileOperations is replaced by verifFaultyOperations for these harnesses: under the engine by
// function identity, natively by a generated overlay wrapper). Exactly the same harness code runs
// natively against the real file system when a counterexample is replayed.
// ---------------------------------------------------------------------------------------------

type verifWorld struct {
	dir          string
	inFile       string
	outFile      string // argument passed to the operation ("" = in place)
	dest         string // path that holds the result on success
	destExists   bool
	outDistinct  bool // dest is a different file than the input
	initial      []string
	failAt       int // the failAt-th table call returns an injected error (0 = none)
	crashAt      int // the process is killed right before the crashAt-th table call (0 = never)
	calls        int
	outcome      int // behaviour of the stubbed processing function
	panicked     bool
	stubSawInput bool
}

var vw *verifWorld

// File contents and permission bits are solver variables: every comparison of a file with its expected
// content / mode below is an SMT query over all values at once (the fixed prefixes only make the three
// contents differ in length, so that a partial write can never equal a complete content).
var (
	verifInputBytes  string
	verifOldOutBytes string
	verifNewBytes    string
	verifInMode      os.FileMode
	verifOutMode     os.FileMode
)

func verifDrawWorld() {
	verifInputBytes = "INPUT-BYTE" + vp.String(1)
	verifOldOutBytes = "OLD-OUTPU" + vp.String(1)
	verifNewBytes = "NEW-COMPLETE-OUTPU" + vp.String(1)
	// any permission bits that keep the files readable and writable for their owner
	verifInMode = os.FileMode(vp.IntIn(0, 0o777)) | 0o600
	verifOutMode = os.FileMode(vp.IntIn(0, 0o777)) | 0o600
}

var errVerifInjected = errors.New("injected I/O error")

func verifStep(op, name string) error {
	vw.calls++
	if vw.calls == vw.crashAt {
		verifCrashInvariant()
		vp.Stop()
	}
	if vw.calls == vw.failAt {
		return &fs.PathError{Op: op, Path: name, Err: errVerifInjected}
	}
	return nil
}

func verifFaultyOperations() fileOperations {
	real := defaultFileOperations() // reaches the original (stubs do not apply to calls made by the stub itself)
	return fileOperations{
		openExclusiveFn: func(name string, flag int, perm os.FileMode) (*os.File, error) {
			if err := verifStep("open", name); err != nil {
				return nil, err
			}
			return real.openExclusiveFn(name, flag, perm)
		},
		createTempFn: func(dir, pattern string) (*os.File, error) {
			if err := verifStep("createtemp", dir); err != nil {
				return nil, err
			}
			return real.createTempFn(dir, pattern)
		},
		statFn: func(name string) (os.FileInfo, error) {
			if err := verifStep("stat", name); err != nil {
				return nil, err
			}
			return real.statFn(name)
		},
		chmodFn: func(f *os.File, mode os.FileMode) error {
			if err := verifStep("chmod", f.Name()); err != nil {
				return err
			}
			return real.chmodFn(f, mode)
		},
		closeFn: func(f *os.File) error {
			// a failing close still releases the descriptor (POSIX): do the real close, report the error
			name := f.Name()
			err := verifStep("close", name)
			if rerr := real.closeFn(f); err == nil {
				err = rerr
			}
			return err
		},
		removeFn: func(name string) error {
			if err := verifStep("remove", name); err != nil {
				return err
			}
			return real.removeFn(name)
		},
		replaceFn: func(oldName, newName string) error {
			if err := verifStep("rename", newName); err != nil {
				return err
			}
			return real.replaceFn(oldName, newName)
		},
	}
}

func verifMust(err error) {
	if err != nil {
		vp.Unsupported("harness set-up failed: " + err.Error())
	}
}

func verifListing(dir string) []string {
	ents, err := os.ReadDir(dir)
	verifMust(err)
	var names []string
	for _, e := range ents {
		names = append(names, e.Name())
	}
	sort.Strings(names)
	return names
}

func verifFileIs(path, content string, mode os.FileMode) bool {
	b, err := os.ReadFile(path)
	if err != nil || string(b) != content {
		return false
	}
	fi, err := os.Stat(path)
	return err == nil && fi.Mode().Perm() == mode
}

func verifIsStagingName(name string) bool {
	return strings.HasPrefix(name, ".") && strings.Contains(name, ".tmp-")
}

// verifSetup creates the directory, the input and (per scenario) the output, and draws the fault plan.
//
//	scenario 0: in place (outFile == "")          3: existing distinct output (mode 0640)
//	scenario 1: outFile is the same string         4: outFile spells the input differently (dir/./in.pdf)
//	scenario 2: new output (absent)                5: outFile is a hard link to the input
//	scenario 6: outFile is a symbolic link to an existing distinct output (mode 0640)
//	scenario 7: outFile is a symbolic link to the input
func verifSetup(maxCalls int) *verifWorld {
	w := &verifWorld{}
	vw = w
	verifDrawWorld()
	dir, err := os.MkdirTemp("", "verifc01")
	verifMust(err)
	w.dir = dir
	w.inFile = dir + "/in.pdf"
	verifMust(os.WriteFile(w.inFile, []byte(verifInputBytes), 0o600))
	verifMust(os.Chmod(w.inFile, verifInMode))
	switch vp.Choice(8) {
	case 0:
		w.outFile, w.dest, w.destExists = "", w.inFile, true
	case 1:
		w.outFile, w.dest, w.destExists = w.inFile, w.inFile, true
	case 2:
		w.outFile = dir + "/out.pdf"
		w.dest, w.outDistinct = w.outFile, true
	case 3:
		w.outFile = dir + "/out.pdf"
		verifMust(os.WriteFile(w.outFile, []byte(verifOldOutBytes), 0o600))
		verifMust(os.Chmod(w.outFile, verifOutMode))
		w.dest, w.destExists, w.outDistinct = w.outFile, true, true
	case 4:
		w.outFile = dir + "/./in.pdf"
		w.dest, w.destExists = w.inFile, true
	case 5:
		w.outFile = dir + "/link.pdf"
		verifMust(os.Link(w.inFile, w.outFile))
		w.dest, w.destExists = w.outFile, true
	case 6:
		real := dir + "/real-out.pdf"
		verifMust(os.WriteFile(real, []byte(verifOldOutBytes), 0o600))
		verifMust(os.Chmod(real, verifOutMode))
		w.outFile = dir + "/sym-out.pdf"
		verifMust(os.Symlink(real, w.outFile))
		w.dest, w.destExists, w.outDistinct = w.outFile, true, true
	case 7:
		w.outFile = dir + "/sym-in.pdf"
		verifMust(os.Symlink(w.inFile, w.outFile))
		w.dest, w.destExists = w.outFile, true
	}
	w.initial = verifListing(dir)
	// fault plan: at most one injected event (the property's "every single injected fault point")
	switch vp.Choice(4) {
	case 1:
		w.failAt = vp.IntIn(1, maxCalls) // which call fails is a solver variable
	case 2:
		w.crashAt = vp.IntIn(1, maxCalls) // the kill point is a solver variable
	case 3:
		w.outcome = vp.IntRange(1, 2) // processing error / panic
	}
	return w
}

func verifDestMode(w *verifWorld) os.FileMode {
	if w.outDistinct {
		return verifOutMode
	}
	return verifInMode
}

func verifDestOld(w *verifWorld) string {
	if w.outDistinct {
		return verifOldOutBytes
	}
	return verifInputBytes
}

// verifCrashInvariant (C02): evaluated at a process-kill point, i.e. between two file system operations.
func verifCrashInvariant() {
	w := vw
	if w.destExists {
		b, err := os.ReadFile(w.dest)
		vp.Assert(err == nil, "crash: a destination that existed before is missing")
		s := string(b)
		vp.Assert(s == verifDestOld(w) || s == verifNewBytes, "crash: the destination holds neither its complete old nor the complete new content")
	}
	if !w.outDistinct || w.destExists {
		// leftovers next to a replaced file are hidden staging files only
		for _, n := range verifListing(w.dir) {
			known := false
			for _, i := range w.initial {
				known = known || i == n
			}
			vp.Assert(known || verifIsStagingName(n), "crash: a leftover that is not a hidden staging file")
		}
	}
	if w.outDistinct {
		vp.Assert(verifFileIs(w.inFile, verifInputBytes, verifInMode), "crash: the input file was modified")
	}
}

// verifPostState (C01 on failure, C03 on success).
func verifPostState(err error) {
	w := vw
	if err != nil || w.panicked {
		vp.Assert(verifFileIs(w.inFile, verifInputBytes, verifInMode), "failed operation modified the input file")
		if w.destExists {
			vp.Assert(verifFileIs(w.dest, verifDestOld(w), verifDestMode(w)), "failed operation modified a pre-existing output file")
		} else {
			_, serr := os.Stat(w.dest)
			vp.Assert(errors.Is(serr, os.ErrNotExist), "failed operation left a new output file behind")
		}
		now := verifListing(w.dir)
		vp.Assert(len(now) == len(w.initial), "failed operation left staging or temporary files behind")
		for i := range w.initial {
			vp.Assert(now[i] == w.initial[i], "failed operation changed the directory contents")
		}
		return
	}
	vp.Assert(w.failAt == 0 || w.calls < w.failAt, "operation reported success although a file system call failed")
	if w.destExists {
		vp.Assert(verifFileIs(w.dest, verifNewBytes, verifDestMode(w)), "destination does not hold the complete output with the destination's previous permission bits")
	} else {
		b, rerr := os.ReadFile(w.dest)
		vp.Assert(rerr == nil && string(b) == verifNewBytes, "new destination does not hold the complete output")
	}
	if w.outDistinct {
		vp.Assert(verifFileIs(w.inFile, verifInputBytes, verifInMode), "successful operation modified a distinct input file")
	}
	want := len(w.initial)
	if !w.destExists {
		want++
	}
	now := verifListing(w.dir)
	vp.Assert(len(now) == want, "successful operation left staging files behind")
	for _, n := range now {
		vp.Assert(!verifIsStagingName(n), "successful operation left a staging file behind")
	}
	vp.Assert(w.stubSawInput, "the processing step did not see the complete input (input truncated while being read)")
}

// verifProcess is the stand-in for the expensive processing step (Optimize, Trim, ...): it writes half of
// the output, reads the whole input (which must still be intact: aliasing), writes the rest; or fails
// after a partial write; or panics.
func verifProcess(rs io.Reader, w io.Writer) error {
	if _, err := w.Write([]byte(verifNewBytes[:7])); err != nil {
		return err
	}
	in, err := io.ReadAll(rs)
	if err != nil {
		return err
	}
	vw.stubSawInput = string(in) == verifInputBytes
	switch vw.outcome {
	case 1:
		return errors.New("processing failed")
	case 2:
		panic("processing panicked")
	}
	_, err = w.Write([]byte(verifNewBytes[7:]))
	return err
}

func verifStubOptimize(rs io.ReadSeeker, w io.Writer, conf *model.Configuration) error {
	return verifProcess(rs, w)
}

func verifRun(op func() error) {
	var err error
	func() {
		defer func() {
			if r := recover(); r != nil {
				if s, ok := r.(string); ok && s == "processing panicked" {
					vw.panicked = true
					return
				}
				panic(r)
			}
		}()
		err = op()
	}()
	verifPostState(err)
	if !vp.Symbolic() {
		os.RemoveAll(vw.dir)
	}
}

// VerifOptimizeFile: OptimizeFile over all path relations x {no fault, the k-th file system call fails,
// the process is killed before the k-th call, the processing step fails, the processing step panics}.
//
//verif:stub github.com/pdfcpu/pdfcpu/pkg/api.defaultFileOperations=verifFaultyOperations
//verif:stub github.com/pdfcpu/pdfcpu/pkg/api.Optimize=verifStubOptimize
func VerifOptimizeFile() {
	w := verifSetup(vp.Bound("CALLS"))
	verifRun(func() error { return OptimizeFile(w.inFile, w.outFile, &model.Configuration{}) })
}

// ---- merge family: several inputs, one output; MergeCreateFile / MergeCreateZipFile key their deferred
// commit-or-cleanup on the error variable ----

func verifStubMerge(destFile string, inFiles []string, w io.Writer, conf *model.Configuration, dividerPage bool) error {
	return verifProcess(strings.NewReader(verifInputBytes), w)
}

func verifStubMergeCreateZip(rs1, rs2 io.ReadSeeker, w io.Writer, conf *model.Configuration) error {
	return verifProcess(rs1, w)
}

// verifSetupMerge: inputs in.pdf (and in2.pdf); output new (scenario 0) or existing with mode 0640 (scenario 1).
func verifSetupMerge(maxCalls int) *verifWorld {
	w := &verifWorld{}
	vw = w
	verifDrawWorld()
	dir, err := os.MkdirTemp("", "verifc01")
	verifMust(err)
	w.dir = dir
	w.inFile = dir + "/in.pdf"
	verifMust(os.WriteFile(w.inFile, []byte(verifInputBytes), 0o600))
	verifMust(os.Chmod(w.inFile, verifInMode))
	verifMust(os.WriteFile(dir+"/in2.pdf", []byte(verifInputBytes), 0o600))
	w.outFile = dir + "/out.pdf"
	w.dest, w.outDistinct = w.outFile, true
	if vp.Choice(2) == 1 {
		verifMust(os.WriteFile(w.outFile, []byte(verifOldOutBytes), 0o600))
		verifMust(os.Chmod(w.outFile, verifOutMode))
		w.destExists = true
	}
	w.initial = verifListing(dir)
	switch vp.Choice(4) {
	case 1:
		w.failAt = vp.IntIn(1, maxCalls) // which call fails is a solver variable
	case 2:
		w.crashAt = vp.IntIn(1, maxCalls) // the kill point is a solver variable
	case 3:
		w.outcome = vp.IntRange(1, 2)
	}
	return w
}

// VerifMergeCreateFile: MergeCreateFile with new / existing output x faults, crashes, processing error, panic.
//
//verif:stub github.com/pdfcpu/pdfcpu/pkg/api.defaultFileOperations=verifFaultyOperations
//verif:stub github.com/pdfcpu/pdfcpu/pkg/api.Merge=verifStubMerge
func VerifMergeCreateFile() {
	w := verifSetupMerge(vp.Bound("CALLS"))
	verifRun(func() error {
		return MergeCreateFile([]string{w.inFile, w.dir + "/in2.pdf"}, w.outFile, false, &model.Configuration{})
	})
}

// VerifMergeAppendFile: MergeAppendFile (existing output is also an input of the merge).
//
//verif:stub github.com/pdfcpu/pdfcpu/pkg/api.defaultFileOperations=verifFaultyOperations
//verif:stub github.com/pdfcpu/pdfcpu/pkg/api.Merge=verifStubMerge
func VerifMergeAppendFile() {
	w := verifSetupMerge(vp.Bound("CALLS"))
	verifRun(func() error {
		return MergeAppendFile([]string{w.inFile}, w.outFile, false, &model.Configuration{})
	})
}

// VerifMergeCreateZipFile: MergeCreateZipFile (two inputs).
//
//verif:stub github.com/pdfcpu/pdfcpu/pkg/api.defaultFileOperations=verifFaultyOperations
//verif:stub github.com/pdfcpu/pdfcpu/pkg/api.MergeCreateZip=verifStubMergeCreateZip
func VerifMergeCreateZipFile() {
	w := verifSetupMerge(vp.Bound("CALLS"))
	verifRun(func() error {
		return MergeCreateZipFile(w.inFile, w.dir+"/in2.pdf", w.outFile, &model.Configuration{})
	})
}

// VerifWriteAttachments (C01, attachment extraction): writeAttachments with two attachments whose names
// are drawn from {a.txt, b.txt, a 220-byte name whose reservation name exceeds NAME_MAX}, possibly
// equal (collision), an output directory in which a.txt may pre-exist, symbolic data, and one injected
// failure at a solver-chosen call of the staged-output operation table. Afterwards - success or not -
// no hidden reservation or staging name remains, a pre-existing file holds its complete old or a
// complete new content, and every other visible file is the complete data of an attachment of that name.
//
//verif:stub github.com/pdfcpu/pdfcpu/pkg/api.defaultFileOperations=verifTxFileOps
func VerifWriteAttachments() {
	dir, err := os.MkdirTemp("", "verifc01att")
	verifMust(err)
	long := strings.Repeat("x", 220)
	// ".." is rejected by sanitize.Path: the attachment is written under the fallback name attachment_<n>,
	// which another attachment may carry literally (collision that must be reported, never overwritten)
	pool := []string{"a.txt", "b.txt", long, "attachment_2", ".."}
	oldA := "OLD-" + vp.String(1)
	hadA := vp.Bool()
	if hadA {
		verifMust(os.WriteFile(dir+"/a.txt", []byte(oldA), 0o644))
	}
	var aa []model.Attachment
	var data []string
	for i := 0; i < 2; i++ {
		name := pool[vp.Choice(len(pool))]
		d := "DATA" + string(rune('1'+i)) + "-" + vp.String(1)
		data = append(data, d)
		aa = append(aa, model.Attachment{Reader: strings.NewReader(d), ID: "id" + string(rune('1'+i)), FileName: name})
	}
	verifTx = &verifTxPlan{}
	if vp.Bool() {
		verifTx.failAt[0] = vp.IntIn(1, vp.Bound("CALLS"))
	}
	err = writeAttachments(dir, aa)
	for _, n := range verifListing(dir) {
		if strings.HasPrefix(n, ".") {
			// only a file whose own removal was the injected failure can stay behind
			excused := false
			for _, st := range verifTx.failedStep {
				excused = excused || st == "remove "+dir+"/"+n
			}
			vp.Assert(excused, "attachment extraction left a hidden reservation or staging file behind")
			continue
		}
		b, rerr := os.ReadFile(dir + "/" + n)
		vp.Assert(rerr == nil, "attachment extraction left an unreadable entry behind")
		ok := n == "a.txt" && hadA && string(b) == oldA
		for i, a := range aa {
			ok = ok || (filepath.Base(attachmentOutputPath(dir, i, a)) == n && string(b) == data[i])
		}
		vp.Assert(ok, "a file in the output directory holds neither its previous content nor the complete data of an attachment of that name")
	}
	if err == nil {
		vp.Assert(verifTx.failed == 0, "attachment extraction reported success although a file system call failed")
		for i, a := range aa {
			b, rerr := os.ReadFile(attachmentOutputPath(dir, i, a))
			vp.Assert(rerr == nil && string(b) == data[i], "attachment extraction reported success but an attachment was not written completely (overwritten by another attachment of the same output name?)")
		}
	} else if hadA && verifTx.failed == 0 && aa[0].FileName != "a.txt" && aa[1].FileName != "a.txt" {
		b, rerr := os.ReadFile(dir + "/a.txt")
		vp.Assert(rerr == nil && string(b) == oldA, "failed attachment extraction modified an unrelated pre-existing file")
	}
	if !vp.Symbolic() {
		os.RemoveAll(dir)
	}
}
