package api

import (
	"errors"
	"io"

	"github.com/pdfcpu/pdfcpu/pkg/pdfcpu/model"
)

// Hooks for the pkg/cli stream harness (C01/C03 through streamInOutForOperation): the stand-in for
// api.Optimize writes half of the output, reads the whole input, then fails or writes the rest.
var (
	VerifCLIOutcome  int    // 0 = success, 1 = error after a partial write
	VerifCLINew      string // complete output
	VerifCLISawInput string // what the processing step read
)

func verifCLIStubOptimize(rs io.ReadSeeker, w io.Writer, conf *model.Configuration) error {
	half := len(VerifCLINew) / 2
	if _, err := w.Write([]byte(VerifCLINew[:half])); err != nil {
		return err
	}
	in, err := io.ReadAll(rs)
	if err != nil {
		return err
	}
	VerifCLISawInput = string(in)
	if VerifCLIOutcome == 1 {
		return errors.New("processing failed")
	}
	_, err = w.Write([]byte(VerifCLINew[half:]))
	return err
}
