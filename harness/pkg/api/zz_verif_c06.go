package api

import (
	"crypto/x509"
	"errors"
	"io/fs"
	"os"
	"path/filepath"
	"sort"
	"strings"

	"github.com/pdfcpu/pdfcpu/internal/zzverif/vp"
)

// ---- C06 in pkg/api: the transactional publication of staged fonts and of font cheat sheets ----

type verifTxPlan struct {
	calls      int
	failAt     [2]int
	failed     int
	failedStep []string // "op name" of every injected failure
}

var verifTx *verifTxPlan

var errVerifTxInjected = errors.New("injected I/O error")

func verifTxStep(op, name string) error {
	p := verifTx
	p.calls++
	for i, at := range p.failAt {
		if at != 0 && p.calls == at {
			p.failAt[i] = 0
			p.failed++
			p.failedStep = append(p.failedStep, op+" "+name)
			return &fs.PathError{Op: op, Path: name, Err: errVerifTxInjected}
		}
	}
	return nil
}

func verifTxMust(err error) {
	if err != nil {
		vp.Unsupported("harness set-up failed: " + err.Error())
	}
}

func verifTxTree(dir string) []string {
	var out []string
	ents, err := os.ReadDir(dir)
	verifTxMust(err)
	for _, e := range ents {
		if e.IsDir() {
			out = append(out, e.Name()+"/")
			for _, s := range verifTxTree(dir + "/" + e.Name()) {
				out = append(out, e.Name()+"/"+s)
			}
			continue
		}
		b, err := os.ReadFile(dir + "/" + e.Name())
		verifTxMust(err)
		out = append(out, e.Name()+"="+string(b))
	}
	sort.Strings(out)
	return out
}

func verifTxSame(a, b []string) bool {
	if len(a) != len(b) {
		return false
	}
	for i := range a {
		if a[i] != b[i] {
			return false
		}
	}
	return true
}

// verifTxOps wraps the real operation table: every call may be the injected failure.
func verifTxOps(real transactionFileOperations) transactionFileOperations {
	return transactionFileOperations{
		mkdirTemp: func(dir, pattern string) (string, error) {
			if err := verifTxStep("mkdirtemp", dir); err != nil {
				return "", err
			}
			return real.mkdirTemp(dir, pattern)
		},
		lstat: func(name string) (os.FileInfo, error) {
			if err := verifTxStep("lstat", name); err != nil {
				return nil, err
			}
			return real.lstat(name)
		},
		syncDir: func(dir string) error {
			if err := verifTxStep("syncdir", dir); err != nil {
				return err
			}
			return real.syncDir(dir)
		},
		rename: func(a, b string) error {
			if err := verifTxStep("rename", b); err != nil {
				return err
			}
			return real.rename(a, b)
		},
		remove: func(name string) error {
			if err := verifTxStep("remove", name); err != nil {
				return err
			}
			return real.remove(name)
		},
		removeAll: func(name string) error {
			if err := verifTxStep("removeall", name); err != nil {
				return err
			}
			return real.removeAll(name)
		},
	}
}

// verifTxWorld: a target directory with an unrelated file, a staging directory with 1..N new files, each
// target pre-existing or not (symbolic), and a plan of up to two injected failures.
func verifTxWorld(prefix, ext string) (root, dir, staging string, names []string, before []string) {
	root, err := os.MkdirTemp("", prefix)
	verifTxMust(err)
	dir, staging = root+"/target", root+"/staging"
	verifTxMust(os.Mkdir(dir, 0o755))
	verifTxMust(os.Mkdir(staging, 0o755))
	n := vp.IntRange(1, vp.Bound("FILES"))
	for i := 0; i < n; i++ {
		name := []string{"Alpha", "Beta", "Gamma"}[i] + ext
		names = append(names, name)
		verifTxMust(os.WriteFile(staging+"/"+name, []byte("NEW-"+name), 0o644))
		if vp.Bool() {
			verifTxMust(os.WriteFile(dir+"/"+name, []byte("OLD-"+name), 0o644))
		}
	}
	verifTxMust(os.WriteFile(dir+"/Other"+ext, []byte("UNRELATED"), 0o644))
	before = verifTxTree(dir)
	verifTx = &verifTxPlan{}
	maxCalls := vp.Bound("CALLS")
	if vp.Bool() {
		// the failing call numbers are solver variables: which call fails is decided by the branch
		// "calls == failAt" inside the operation table
		verifTx.failAt[0] = vp.IntIn(1, maxCalls)
		if vp.Bool() {
			verifTx.failAt[1] = vp.IntIn(2, maxCalls+6)
			vp.Assume(verifTx.failAt[1] > verifTx.failAt[0])
		}
	}
	return
}

func verifTxAllPublished(dir string, names []string, ext string) bool {
	for _, name := range names {
		b, err := os.ReadFile(dir + "/" + name)
		if err != nil || string(b) != "NEW-"+name {
			return false
		}
	}
	b, err := os.ReadFile(dir + "/Other" + ext)
	return err == nil && string(b) == "UNRELATED"
}

// verifTxFailureOK: after a failure the directory is exactly as before, or - only if a second failure
// hit the rollback - the error names the backup directory that was kept.
func verifTxFailureOK(before, after []string, err error, backupPrefix string) (bool, string) {
	if verifTxSame(before, after) {
		return true, ""
	}
	if verifTx.failed < 2 {
		return false, "a failed batch did not restore the directory to its previous contents (or left backup/staging entries)"
	}
	for _, e := range after {
		if strings.HasPrefix(e, backupPrefix) && strings.HasSuffix(e, "/") && !strings.Contains(strings.TrimSuffix(e, "/"), "/") {
			if strings.Contains(err.Error(), strings.TrimSuffix(e, "/")) {
				return true, ""
			}
		}
	}
	return false, "rollback failed but the error does not say where the backup was kept"
}

// VerifFontCommit (C06, pkg/api): commitStagedFontsWithOperations publishes 1..FILES staged font
// representations into the user font directory; the caller then finalizes, or rolls back (as installFonts
// does when reloading the fonts fails). With one injected failure at any operation the font directory is
// restored exactly; with a second failure inside the rollback the error names the retained backup.
func VerifFontCommit() {
	root, dir, staging, names, before := verifTxWorld("verifc06api", ".gob")
	ops := verifTxOps(defaultFontInstallFileOperations())
	commit, err := commitStagedFontsWithOperations(dir, staging, ops)
	if err != nil {
		ok, why := verifTxFailureOK(before, verifTxTree(dir), err, ".pdfcpu-font-backup-")
		vp.Assert(ok, "font commit: "+why)
	} else if vp.Bool() {
		// a later step of the installation fails: the caller rolls the commit back
		rerr := commit.rollback()
		after := verifTxTree(dir)
		if rerr == nil {
			vp.Assert(verifTxSame(before, after), "font commit: rollback reported success but the font directory differs from its previous contents")
		} else {
			verifTx.failed = 2 // a failing rollback step is the case in which a retained backup must be named
			ok, why := verifTxFailureOK(before, after, rerr, ".pdfcpu-font-backup-")
			vp.Assert(ok, "font commit: "+why)
		}
	} else {
		ferr := commit.finalize()
		vp.Assert(verifTxAllPublished(dir, names, ".gob"), "font commit: success reported but a font was not published or an unrelated font changed")
		if ferr == nil {
			for _, e := range verifTxTree(dir) {
				vp.Assert(!strings.HasPrefix(e, ".pdfcpu-font-backup-"), "font commit: backup directory remains after a successful finalize")
			}
		}
	}
	if !vp.Symbolic() {
		os.RemoveAll(root)
	}
}

// VerifCheatSheetPublish (C06, pkg/api): publishCheatSheets with the same fault plan. published=false
// means nothing changed (or the retained backup is named); published=true means every sheet is in place.
func VerifCheatSheetPublish() {
	root, dir, staging, names, before := verifTxWorld("verifc06cs", ".pdf")
	ops := verifTxOps(defaultCheatSheetFileOperations())
	published, err := publishCheatSheets(dir, staging, names, ops)
	after := verifTxTree(dir)
	if published {
		vp.Assert(verifTxAllPublished(dir, names, ".pdf"), "cheat sheets: reported as published but a sheet is missing or an unrelated file changed")
		if err == nil {
			for _, e := range after {
				vp.Assert(!strings.HasPrefix(e, ".pdfcpu-font-cheatsheet-backup-"), "cheat sheets: backup directory remains after success")
			}
		}
	} else {
		vp.Assert(err != nil, "cheat sheets: not published but no error")
		ok, why := verifTxFailureOK(before, after, err, ".pdfcpu-font-cheatsheet-backup-")
		vp.Assert(ok, "cheat sheets: "+why)
	}
	if !vp.Symbolic() {
		os.RemoveAll(root)
	}
}

func verifTxFileOps() fileOperations {
	real := defaultFileOperations()
	return fileOperations{
		openExclusiveFn: func(name string, flag int, perm os.FileMode) (*os.File, error) {
			if err := verifTxStep("open", name); err != nil {
				return nil, err
			}
			return real.openExclusiveFn(name, flag, perm)
		},
		createTempFn: func(dir, pattern string) (*os.File, error) {
			if err := verifTxStep("createtemp", dir); err != nil {
				return nil, err
			}
			return real.createTempFn(dir, pattern)
		},
		statFn: func(name string) (os.FileInfo, error) {
			if err := verifTxStep("stat", name); err != nil {
				return nil, err
			}
			return real.statFn(name)
		},
		chmodFn: func(f *os.File, mode os.FileMode) error {
			if err := verifTxStep("chmod", f.Name()); err != nil {
				return err
			}
			return real.chmodFn(f, mode)
		},
		closeFn: func(f *os.File) error {
			name := f.Name()
			err := verifTxStep("close", name)
			if rerr := real.closeFn(f); err == nil {
				err = rerr
			}
			return err
		},
		removeFn: func(name string) error {
			if err := verifTxStep("remove", name); err != nil {
				return err
			}
			return real.removeFn(name)
		},
		replaceFn: func(oldName, newName string) error {
			if err := verifTxStep("rename", newName); err != nil {
				return err
			}
			return real.replaceFn(oldName, newName)
		},
	}
}

// VerifCertificatePublish (C06, pkg/api): publishCertificateImports stages, backs up and publishes
// 1..FILES certificate files into the trust directory, each destination pre-existing or not, with up to
// two injected failures anywhere in the operation table or in the encoder. All-or-nothing: on success
// every destination holds the new content and no staging/backup file remains; on failure the visible
// files are exactly the previous ones - or, when a cleanup/rollback step itself failed, every file
// that stays behind is named in the error.
func VerifCertificatePublish() {
	root, err := os.MkdirTemp("", "verifc06cert")
	verifTxMust(err)
	dir := root + "/certs"
	verifTxMust(os.Mkdir(dir, 0o755))
	n := vp.IntRange(1, vp.Bound("FILES"))
	var imports []certificateImport
	for i := 0; i < n; i++ {
		name := []string{"alpha.p7c", "beta.p7c", "gamma.p7c"}[i]
		imports = append(imports, certificateImport{inFile: "/in/" + name, outFile: dir + "/" + name})
		if vp.Bool() {
			verifTxMust(os.WriteFile(dir+"/"+name, []byte("OLD-"+name), 0o644))
		}
	}
	verifTxMust(os.WriteFile(dir+"/other.p7c", []byte("UNRELATED"), 0o644))
	before := verifTxTree(dir)
	verifTx = &verifTxPlan{}
	maxCalls := vp.Bound("CALLS")
	if vp.Bool() {
		verifTx.failAt[0] = vp.IntIn(1, maxCalls)
		if vp.Bool() {
			verifTx.failAt[1] = vp.IntIn(2, maxCalls+6)
			vp.Assume(verifTx.failAt[1] > verifTx.failAt[0])
		}
	}
	ops := certificateImportOperations{
		files: verifTxFileOps(),
		saveCertificates: func(_ []*x509.Certificate, fileName string) error {
			// the encoder writes the new representation; an injected failure leaves a partial file
			if err := verifTxStep("encode", fileName); err != nil {
				os.WriteFile(fileName, []byte("NEW-"), 0o644)
				return err
			}
			return os.WriteFile(fileName, []byte("NEW-"+filepath.Base(fileName[:strings.Index(fileName, ".stage-")])[1:]), 0o644)
		},
	}
	err = publishCertificateImports(imports, ops)
	after := verifTxTree(dir)
	visible := func(t []string) []string {
		var out []string
		for _, e := range t {
			if !strings.HasPrefix(e, ".") {
				out = append(out, e)
			}
		}
		return out
	}
	if err == nil {
		for _, imp := range imports {
			b, rerr := os.ReadFile(imp.outFile)
			vp.Assert(rerr == nil && string(b) == "NEW-"+filepath.Base(imp.outFile), "certificates: success reported but a destination does not hold the new content")
		}
		vp.Assert(len(visible(after)) == len(after), "certificates: staging or backup files remain after success")
		b, rerr := os.ReadFile(dir + "/other.p7c")
		vp.Assert(rerr == nil && string(b) == "UNRELATED", "certificates: an unrelated certificate file changed")
	} else {
		allNew := true
		for _, imp := range imports {
			b, rerr := os.ReadFile(imp.outFile)
			allNew = allNew && rerr == nil && string(b) == "NEW-"+filepath.Base(imp.outFile)
		}
		if verifTxSame(before, after) {
			// restored exactly
		} else {
			// something stays behind: only acceptable when a cleanup / rollback step itself failed, and then
			// the visible files are all-old or all-new and every leftover is named in the error
			if verifTx.failed < 2 {
				vp.Assert(verifTxSame(visible(before), visible(after)) || allNew, "certificates: failed import left the destinations partly replaced")
			}
			for _, e := range after {
				if strings.HasPrefix(e, ".") {
					name := e[:strings.Index(e, "=")]
					vp.Assert(strings.Contains(err.Error(), name), "certificates: a staging/backup file stays behind and the error does not name it")
				}
			}
		}
	}
	if !vp.Symbolic() {
		os.RemoveAll(root)
	}
}
