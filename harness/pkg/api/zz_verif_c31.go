package api

import (
	"github.com/pdfcpu/pdfcpu/internal/zzverif/vp"
)

// A term of the page selection grammar, generated from a shape selector and up to two numbers.
// Numbers are rendered as 1..2 symbolic decimal digits, so 0, numbers beyond the page count and
// reversed ranges are all included.
type verifTerm struct {
	shape int // index into the list below
	neg   bool
	a, b  int    // numeric values of the numbers used by the shape
	text  string // the token as the user writes it
}

const (
	vsNum     = iota // #
	vsUpTo           // -#
	vsFrom           // #-
	vsRange          // #-#
	vsLast           // l
	vsLastM          // l-#
	vsLastMTo        // l-#-
	vsAll            // -l
	vsAllM           // -l-#
	vsFromL          // #-l
	vsFromLM         // #-l-#
	vsEven
	vsOdd
	vsShapes
)

func verifNumber() (int, string) {
	digits := vp.IntRange(1, 2)
	v := 0
	var s []byte
	for i := 0; i < digits; i++ {
		d := vp.Byte()
		vp.Assume(d >= '0' && d <= '9')
		s = append(s, d)
		v = v*10 + int(d-'0')
	}
	return v, string(s)
}

func verifDrawTerm() verifTerm {
	t := verifTerm{shape: vp.Choice(vsShapes)}
	prefix := ""
	if t.shape != vsEven && t.shape != vsOdd {
		switch vp.Choice(3) {
		case 1:
			prefix, t.neg = "!", true
		case 2:
			prefix, t.neg = "n", true
		}
	}
	var sa, sb string
	switch t.shape {
	case vsNum:
		t.a, sa = verifNumber()
		t.text = sa
	case vsUpTo:
		t.a, sa = verifNumber()
		t.text = "-" + sa
	case vsFrom:
		t.a, sa = verifNumber()
		t.text = sa + "-"
	case vsRange:
		t.a, sa = verifNumber()
		t.b, sb = verifNumber()
		t.text = sa + "-" + sb
	case vsLast:
		t.text = "l"
	case vsLastM:
		t.a, sa = verifNumber()
		t.text = "l-" + sa
	case vsLastMTo:
		t.a, sa = verifNumber()
		t.text = "l-" + sa + "-"
	case vsAll:
		t.text = "-l"
	case vsAllM:
		t.a, sa = verifNumber()
		t.text = "-l-" + sa
	case vsFromL:
		t.a, sa = verifNumber()
		t.text = sa + "-l"
	case vsFromLM:
		t.a, sa = verifNumber()
		t.b, sb = verifNumber()
		t.text = sa + "-l-" + sb
	case vsEven:
		t.text = "even"
	case vsOdd:
		t.text = "odd"
	}
	t.text = prefix + t.text
	return t
}

// verifInTerm: does page p (1 <= p <= P) belong to the page set denoted by the term (before negation)?
// This is the meaning given by the CLI usage text: l = last page, l-# = #th page before the last,
// -# = up to #, #- = from # on; ranges are clipped to the document and empty when reversed.
func verifInTerm(t verifTerm, p, P int) bool {
	switch t.shape {
	case vsNum:
		return p == t.a
	case vsUpTo:
		return p <= t.a
	case vsFrom:
		return p >= t.a
	case vsRange:
		return vp.And(p >= t.a, p <= t.b)
	case vsLast:
		return p == P
	case vsLastM:
		return p == P-t.a
	case vsLastMTo:
		return vp.And(P-t.a >= 1, p >= P-t.a)
	case vsAll:
		return true
	case vsAllM:
		return p <= P-t.a
	case vsFromL:
		return p >= t.a
	case vsFromLM:
		return vp.And(p >= t.a, p <= P-t.b)
	}
	return false
}

// VerifPageSelection: PagesForPageSelection on T generated terms == left-to-right reference evaluation,
// and no page outside 1..P is ever selected.
func VerifPageSelection() {
	P := vp.IntRange(0, vp.Bound("P"))
	T := vp.IntRange(1, vp.Bound("T"))
	terms := make([]verifTerm, T)
	for i := range terms {
		terms[i] = verifDrawTerm()
	}
	verifCheckSelection(P, terms)
}

// VerifPageSelectionEvenOdd: an arbitrary term followed by 'even' or 'odd' (which only add pages that the
// earlier term did not decide), optionally followed by a third arbitrary term.
func VerifPageSelectionEvenOdd() {
	P := vp.IntRange(0, vp.Bound("P"))
	terms := []verifTerm{verifDrawTerm()}
	if vp.Choice(2) == 0 {
		terms = append(terms, verifTerm{shape: vsEven, text: "even"})
	} else {
		terms = append(terms, verifTerm{shape: vsOdd, text: "odd"})
	}
	verifCheckSelection(P, terms)
}

func verifCheckSelection(P int, terms []verifTerm) {
	sel := make([]string, len(terms))
	for i := range terms {
		sel[i] = terms[i].text
	}
	// reference: decided/selected per page 1..P
	selected := make([]bool, P+2)
	decided := make([]bool, P+2)
	for _, t := range terms {
		for p := 1; p <= P; p++ {
			switch t.shape {
			case vsEven, vsOdd:
				parity := p%2 == 0
				if t.shape == vsOdd {
					parity = !parity
				}
				if parity {
					selected[p] = vp.Or(selected[p], !decided[p])
					decided[p] = true
				}
			default:
				in := verifInTerm(t, p, P)
				selected[p] = vp.Or(vp.And(in, !t.neg), vp.And(!in, selected[p]))
				decided[p] = vp.Or(decided[p], in)
			}
		}
	}
	m, err := PagesForPageSelection(P, sel, false, false)
	vp.Assert(err == nil, "PagesForPageSelection rejected an expression of the documented grammar")
	for p := 1; p <= P; p++ {
		vp.Assert(m[p] == selected[p], "selected pages differ from left-to-right evaluation of the terms")
	}
	vp.Assert(!m[0], "page 0 is selected (selections must stay within 1..page count)")
	vp.Assert(!m[P+1], "a page beyond the page count is selected")
	for k, v := range m {
		if v {
			vp.Assert(vp.And(k >= 1, k <= P), "a page outside 1..page count is selected")
		}
	}
}

// ---- syntax: the language accepted by ParsePageSelection's regular expression ----

// verifGrammarSMT is the documented selection grammar as an SMT-LIB regular language, written
// independently of the implementation's pattern.
const verifGrammarSMT = `(let ((num (re.+ (re.range "0" "9"))))
 (let ((core (re.union num
   (re.++ (str.to_re "-") num)
   (re.++ num (str.to_re "-"))
   (re.++ num (str.to_re "-") num)
   (str.to_re "l")
   (re.++ (str.to_re "l-") num)
   (re.++ (str.to_re "l-") num (str.to_re "-"))
   (str.to_re "-l")
   (re.++ (str.to_re "-l-") num)
   (re.++ num (str.to_re "-l"))
   (re.++ num (str.to_re "-l-") num))))
 (let ((term (re.union (str.to_re "even") (str.to_re "odd") (re.++ (re.opt (re.union (str.to_re "!") (str.to_re "n"))) core))))
  (re.++ term (re.* (re.++ (str.to_re ",") term))))))`

func verifIsNum(s string) bool {
	if s == "" {
		return false
	}
	for i := 0; i < len(s); i++ {
		if s[i] < '0' || s[i] > '9' {
			return false
		}
	}
	return true
}

func verifSplit(s string, sep byte) []string {
	var out []string
	start := 0
	for i := 0; i < len(s); i++ {
		if s[i] == sep {
			out = append(out, s[start:i])
			start = i + 1
		}
	}
	return append(out, s[start:])
}

// verifInGrammar recognises the same grammar in plain Go (used to judge a witness natively).
func verifInGrammar(s string) bool {
	for _, t := range verifSplit(s, ',') {
		if t == "even" || t == "odd" {
			continue
		}
		if t != "" && (t[0] == '!' || t[0] == 'n') {
			t = t[1:]
		}
		p := verifSplit(t, '-')
		ok := false
		switch len(p) {
		case 1:
			ok = verifIsNum(p[0]) || p[0] == "l"
		case 2:
			ok = p[0] == "" && verifIsNum(p[1]) || // -#
				verifIsNum(p[0]) && p[1] == "" || // #-
				verifIsNum(p[0]) && verifIsNum(p[1]) || // #-#
				p[0] == "l" && verifIsNum(p[1]) || // l-#
				p[0] == "" && p[1] == "l" || // -l
				verifIsNum(p[0]) && p[1] == "l" // #-l
		case 3:
			ok = p[0] == "l" && verifIsNum(p[1]) && p[2] == "" || // l-#-
				p[0] == "" && p[1] == "l" && verifIsNum(p[2]) || // -l-#
				verifIsNum(p[0]) && p[1] == "l" && verifIsNum(p[2]) // #-l-#
		}
		if !ok {
			return false
		}
	}
	return true
}

// VerifPageSelectionSyntax: the set of strings ParsePageSelection accepts is exactly the documented
// grammar (decided as a regular-language equivalence, unbounded in string length); a witness of a
// difference is confirmed against the real ParsePageSelection.
func VerifPageSelectionSyntax() {
	re := setupRegExpForPageSelection()
	w, differ := vp.RegexDiffWitness(re, verifGrammarSMT)
	if differ {
		_, err := ParsePageSelection(w)
		accepted := err == nil && w != ""
		vp.Assert(accepted == verifInGrammar(w), "ParsePageSelection accepts a string outside the selection syntax, or rejects one inside it")
	}
	vp.Assert(selectedPagesRegExp != nil, "page selection pattern did not compile")
}

// VerifPageRemoval: RemainingPagesForPageRemoval == complement (within 1..P) of the selection.
func VerifPageRemoval() {
	P := vp.IntRange(0, vp.Bound("P"))
	t := verifDrawTerm()
	vp.Assume(t.shape != vsEven && t.shape != vsOdd || true)
	sel, err := PagesForPageSelection(P, []string{t.text}, false, false)
	vp.Assert(err == nil, "PagesForPageSelection failed")
	rem, err := RemainingPagesForPageRemoval(P, []string{t.text}, false)
	vp.Assert(err == nil, "RemainingPagesForPageRemoval failed")
	for p := 1; p <= P; p++ {
		vp.Assert(rem[p] == !sel[p], "remaining pages are not the complement of the removed pages")
	}
	vp.Assert(!rem[0] && !rem[P+1], "remaining pages contain a page outside 1..page count")
}

// VerifPageCollection: PagesForPageCollection lists pages in term order with repetitions; a negated
// term deletes every earlier occurrence of its pages; all entries are within 1..P.
func VerifPageCollection() {
	P := vp.IntRange(0, vp.Bound("P"))
	T := vp.IntRange(1, vp.Bound("T"))
	terms := make([]verifTerm, T)
	sel := make([]string, T)
	for i := range terms {
		terms[i] = verifDrawTerm()
		sel[i] = terms[i].text
	}
	got, err := PagesForPageCollection(P, sel)
	// reference list; membership conditions are forked (vp.Fork) so that the list has a concrete shape
	var want []int
	for _, t := range terms {
		for p := 1; p <= P; p++ {
			in := false
			switch t.shape {
			case vsEven:
				in = p%2 == 0
			case vsOdd:
				in = p%2 == 1
			default:
				in = vp.Fork(verifInTerm(t, p, P))
			}
			if !in {
				continue
			}
			if !t.neg {
				want = append(want, p)
				continue
			}
			var kept []int
			for _, q := range want {
				if q != p {
					kept = append(kept, q)
				}
			}
			want = kept
		}
	}
	if len(want) == 0 {
		vp.Assert(err != nil, "an empty page collection was not reported")
		return
	}
	vp.Assert(err == nil, "PagesForPageCollection rejected an expression of the documented grammar")
	vp.Assert(len(got) == len(want), "page collection has the wrong number of entries")
	for i := range want {
		vp.Assert(got[i] == want[i], "page collection differs from term-order evaluation")
		vp.Assert(got[i] >= 1 && got[i] <= P, "page collection contains a page outside 1..page count")
	}
}
