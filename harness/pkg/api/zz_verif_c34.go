package api

import (
	"github.com/pdfcpu/pdfcpu/internal/zzverif/vp"
	"github.com/pdfcpu/pdfcpu/pkg/pdfcpu"
	"github.com/pdfcpu/pdfcpu/pkg/pdfcpu/model"
	"github.com/pdfcpu/pdfcpu/pkg/pdfcpu/types"
)

// VerifBookletAccepted: every booklet configuration that the API's validation ACCEPTS (pages per sheet
// side, type, binding, orientation, multi folio with folio size 1..12) lays out m <= M selected pages
// without panicking: whole number of sheets, every selected page exactly once, blanks elsewhere.
// (All inputs of this harness are finite choices; the engine enumerates them.)
func VerifBookletAccepted() {
	nup := pdfcpu.DefaultBookletConfig()
	n := []int{2, 4, 6, 8, 3, 9}[vp.Choice(6)]
	switch n {
	case 2:
		nup.Grid = &types.Dim{Width: 1, Height: 2}
	case 3:
		nup.Grid = &types.Dim{Width: 1, Height: 3}
	case 4:
		nup.Grid = &types.Dim{Width: 2, Height: 2}
	case 6:
		nup.Grid = &types.Dim{Width: 2, Height: 3}
	case 8:
		nup.Grid = &types.Dim{Width: 2, Height: 4}
	case 9:
		nup.Grid = &types.Dim{Width: 3, Height: 3}
	}
	nup.BookletType = model.BookletType(vp.Choice(3))
	nup.BookletBinding = model.BookletBinding(vp.Choice(2))
	if vp.Choice(2) == 1 {
		nup.PageDim = &types.Dim{Width: 842, Height: 595}
	} else {
		nup.PageDim = &types.Dim{Width: 595, Height: 842}
	}
	if vp.Choice(2) == 1 {
		nup.MultiFolio = true
		nup.FolioSize = vp.IntRange(0, 12)
	}
	if err := validateBookletLayout(nup); err != nil {
		return // rejected configurations are outside the property
	}
	m := vp.IntRange(1, vp.Bound("M"))
	pages := types.IntSet{}
	for p := 1; p <= m; p++ {
		pages[p] = true
	}
	// a negated selection term ("1-m,!q") leaves an entry with value false in the set: that page is NOT selected
	q := []int{0, 1, m}[vp.Choice(3)]
	selected := m
	if q > 0 {
		pages[q] = false
		selected--
	}
	order := pdfcpu.VerifExportGetBookletOrdering(pages, nup)
	vp.Assert(len(order)%(2*n) == 0, "slot count is not a whole number of sheets")
	seen := make([]int, m+1)
	for _, bp := range order {
		vp.Assert(bp.Number >= 0 && bp.Number <= m, "slot holds a page that was not selected")
		seen[bp.Number]++
	}
	for p := 1; p <= m; p++ {
		if p == q {
			vp.Assert(seen[p] == 0, "a page that was deselected is placed")
			continue
		}
		vp.Assert(seen[p] == 1, "a selected page is not placed exactly once")
	}
	vp.Assert(seen[0] == len(order)-selected, "blank slots do not fill the remainder")
}
