package font

import (
	"errors"
	"io/fs"
	"os"
	"sort"
	"strings"

	"github.com/pdfcpu/pdfcpu/internal/zzverif/vp"
)

// ---- fault plan shared by the harnesses: up to two injected failures, identified by call number ----

type verifPlan struct {
	calls  int
	failAt [2]int
	failed int
	trace  []string
}

var vplan *verifPlan

var errVerifInjected = errors.New("injected I/O error")

func verifStep(op, name string) error {
	p := vplan
	p.calls++
	p.trace = append(p.trace, op+" "+name)
	for i, at := range p.failAt {
		if at != 0 && p.calls == at {
			p.failAt[i] = 0
			p.failed++
			p.trace[len(p.trace)-1] += " FAILED"
			return &fs.PathError{Op: op, Path: name, Err: errVerifInjected}
		}
	}
	return nil
}

func verifMust(err error) {
	if err != nil {
		vp.Unsupported("harness set-up failed: " + err.Error())
	}
}

func verifTree(dir string) []string {
	var out []string
	ents, err := os.ReadDir(dir)
	verifMust(err)
	for _, e := range ents {
		if e.IsDir() {
			out = append(out, e.Name()+"/")
			for _, s := range verifTree(dir + "/" + e.Name()) {
				out = append(out, e.Name()+"/"+s)
			}
			continue
		}
		b, err := os.ReadFile(dir + "/" + e.Name())
		verifMust(err)
		out = append(out, e.Name()+"="+string(b))
	}
	sort.Strings(out)
	return out
}

func verifSameTree(a, b []string) bool {
	if len(a) != len(b) {
		return false
	}
	for i := range a {
		if a[i] != b[i] {
			return false
		}
	}
	return true
}

func verifCollectionOps() collectionInstallFileOperations {
	real := defaultCollectionInstallFileOperations()
	ops := real
	ops.mkdirTemp = func(dir, pattern string) (string, error) {
		if err := verifStep("mkdirtemp", dir); err != nil {
			return "", err
		}
		return real.mkdirTemp(dir, pattern)
	}
	ops.lstat = func(name string) (os.FileInfo, error) {
		if err := verifStep("lstat", name); err != nil {
			return nil, err
		}
		return real.lstat(name)
	}
	ops.syncDir = func(dir string) error {
		if err := verifStep("syncdir", dir); err != nil {
			return err
		}
		return real.syncDir(dir)
	}
	ops.rename = func(a, b string) error {
		if err := verifStep("rename", b); err != nil {
			return err
		}
		return real.rename(a, b)
	}
	ops.remove = func(name string) error {
		if err := verifStep("remove", name); err != nil {
			return err
		}
		return real.remove(name)
	}
	ops.removeAll = func(name string) error {
		if err := verifStep("removeall", name); err != nil {
			return err
		}
		return real.removeAll(name)
	}
	return ops
}

// VerifCollectionCommit (C06): commitCollectionFonts publishes 1..3 staged fonts into the font directory
// (each target pre-existing or not). With one injected failure at any operation the directory is restored
// to exactly its previous contents and no backup directory remains; if a second failure hits a rollback
// step, the error names the place where the backup was kept.
func VerifCollectionCommit() {
	root, err := os.MkdirTemp("", "verifc06")
	verifMust(err)
	fontDir, staging := root+"/fonts", root+"/staging"
	verifMust(os.Mkdir(fontDir, 0o755))
	verifMust(os.Mkdir(staging, 0o755))
	n := vp.IntRange(1, vp.Bound("FONTS"))
	var results []InstallResult
	for i := 0; i < n; i++ {
		name := []string{"Alpha", "Beta", "Gamma"}[i]
		results = append(results, InstallResult{PostScriptName: name})
		verifMust(os.WriteFile(staging+"/"+name+".gob", []byte("NEW-"+name), 0o644))
		if vp.Bool() {
			verifMust(os.WriteFile(fontDir+"/"+name+".gob", []byte("OLD-"+name), 0o644))
		}
	}
	verifMust(os.WriteFile(fontDir+"/Other.gob", []byte("UNRELATED"), 0o644))
	before := verifTree(fontDir)
	vplan = &verifPlan{}
	maxCalls := vp.Bound("CALLS")
	if vp.Bool() {
		// the numbers of the failing calls are solver variables
		vplan.failAt[0] = vp.IntIn(1, maxCalls)
		if vp.Bool() {
			vplan.failAt[1] = vp.IntIn(2, maxCalls+6)
			vp.Assume(vplan.failAt[1] > vplan.failAt[0])
		}
	}
	err = commitCollectionFonts(fontDir, staging, results, verifCollectionOps())
	after := verifTree(fontDir)
	if err == nil {
		for _, r := range results {
			b, rerr := os.ReadFile(fontDir + "/" + r.PostScriptName + ".gob")
			vp.Assert(rerr == nil && string(b) == "NEW-"+r.PostScriptName, "success reported but a font was not published")
		}
		b, rerr := os.ReadFile(fontDir + "/Other.gob")
		vp.Assert(rerr == nil && string(b) == "UNRELATED", "an unrelated font was modified")
		// durability (C07): success is reported only if the font directory was flushed after the last
		// font was published into it - a flush that failed does not count
		lastPublish, lastFlush := -1, -1
		for i, t := range vplan.trace {
			for _, r := range results {
				if t == "rename "+fontDir+"/"+r.PostScriptName+".gob" {
					lastPublish = i
				}
			}
			if t == "syncdir "+fontDir {
				lastFlush = i
			}
		}
		vp.Assert(lastPublish >= 0 && lastFlush > lastPublish, "success reported although the font directory was not flushed after the last font was published (a power loss can undo the publication)")
		return
	}
	switch vplan.failed {
	case 1:
		vp.Assert(verifSameTree(before, after), "failed batch did not restore the font directory to its previous contents (or left backup/staging entries)")
	case 2:
		if !verifSameTree(before, after) {
			backupNamed := false
			for _, e := range after {
				if strings.HasPrefix(e, ".pdfcpu-font-backup-") && strings.HasSuffix(e, "/") {
					backupNamed = backupNamed || strings.Contains(err.Error(), strings.TrimSuffix(e, "/"))
				}
			}
			vp.Assert(backupNamed, "rollback failed but the error does not say where the backup was kept")
		}
	}
	if !vp.Symbolic() {
		os.RemoveAll(root)
	}
}

// ---- C07: durability protocol of a single font representation ----

type verifDurability struct {
	written     map[string]bool // file has unflushed data
	publishedOK bool            // every publishing rename had flushed data
	renamed     bool
	dirSynced   bool // directory flushed after the last publishing rename
}

// VerifGobDurable (C07): writeGobWithOperations under one injected failure at any operation. Recorded
// from the operation trace: (1) at the moment the temporary file is renamed onto the font name its data
// has been flushed (fsync after the last write/chmod) - otherwise a power loss could leave the name
// pointing at truncated data; (2) a successful return implies the directory was flushed after the rename;
// (3) on failure the target keeps its previous representation and no temporary file remains.
func VerifGobDurable() {
	dir, err := os.MkdirTemp("", "verifc07")
	verifMust(err)
	target := dir + "/Font.gob"
	existed := vp.Bool()
	if existed {
		verifMust(os.WriteFile(target, []byte("OLD-FONT"), 0o644))
	}
	before := verifTree(dir)
	vplan = &verifPlan{}
	if vp.Bool() {
		vplan.failAt[0] = vp.IntIn(1, vp.Bound("CALLS")) // solver variable
	}
	d := &verifDurability{written: map[string]bool{}, publishedOK: true}
	real := defaultGobPersistenceOperations()
	ops := gobPersistenceOperations{
		createTemp: func(dir, pattern string) (*os.File, error) {
			if err := verifStep("createtemp", dir); err != nil {
				return nil, err
			}
			return real.createTemp(dir, pattern)
		},
		encode: func(f *os.File, fd ttf) error {
			// encoding writes the representation; an injected failure leaves a partial file
			if err := verifStep("encode", f.Name()); err != nil {
				f.Write([]byte("NEW-"))
				d.written[f.Name()] = true
				return err
			}
			_, werr := f.Write([]byte("NEW-FONT"))
			d.written[f.Name()] = true
			return werr
		},
		chmod: func(f *os.File, mode os.FileMode) error {
			if err := verifStep("chmod", f.Name()); err != nil {
				return err
			}
			d.written[f.Name()] = true
			return real.chmod(f, mode)
		},
		sync: func(f *os.File) error {
			if err := verifStep("sync", f.Name()); err != nil {
				return err
			}
			d.written[f.Name()] = false
			return real.sync(f)
		},
		syncDir: func(dir string) error {
			if err := verifStep("syncdir", dir); err != nil {
				return err
			}
			d.dirSynced = true
			return real.syncDir(dir)
		},
		close: func(f *os.File) error {
			err := verifStep("close", f.Name())
			if rerr := real.close(f); err == nil {
				err = rerr
			}
			return err
		},
		rename: func(a, b string) error {
			if err := verifStep("rename", b); err != nil {
				return err
			}
			if d.written[a] {
				d.publishedOK = false
			}
			d.renamed = true
			d.dirSynced = false
			return real.rename(a, b)
		},
		remove: func(name string) error {
			if err := verifStep("remove", name); err != nil {
				return err
			}
			return real.remove(name)
		},
		verify: func(name string, fd *ttf) error {
			if err := verifStep("verify", name); err != nil {
				return err
			}
			b, rerr := os.ReadFile(name)
			if rerr != nil {
				return rerr
			}
			if string(b) != "NEW-FONT" {
				fd.UnitsPerEm = 1 // representation mismatch
			}
			return nil
		},
	}
	err = writeGobWithOperations(target, ttf{}, ops)
	vp.Assert(d.publishedOK, "a font was published (renamed onto its name) before its data was flushed: power loss can leave a truncated font")
	if err == nil {
		vp.Assert(vplan.failed == 0 || !d.renamed || true, "unreachable")
		vp.Assert(d.renamed && d.dirSynced, "success reported but the directory entry was not flushed after publication")
		b, rerr := os.ReadFile(target)
		vp.Assert(rerr == nil && string(b) == "NEW-FONT", "success reported but the font name does not hold the new representation")
	} else if !d.renamed {
		vp.Assert(verifSameTree(before, verifTree(dir)), "failed installation changed the font directory or left a temporary file")
	} else {
		// failure after publication (directory sync failed): the name holds the complete new representation
		b, rerr := os.ReadFile(target)
		vp.Assert(rerr == nil && string(b) == "NEW-FONT", "after a failed directory sync the font name holds neither old nor new complete data")
	}
	if !vp.Symbolic() {
		os.RemoveAll(dir)
	}
}
