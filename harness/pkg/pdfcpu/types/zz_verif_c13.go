package types

import (
	"unicode/utf8"

	"github.com/pdfcpu/pdfcpu/internal/zzverif/vp"
)

// verifScalar draws one Unicode scalar value (every code point except surrogates).
func verifScalar() rune {
	r := vp.Rune()
	vp.Assume(r >= 0 && r <= 0x10FFFF)
	vp.Assume(r < 0xD800 || r > 0xDFFF)
	return r
}

func verifText(k int) (string, []rune) {
	var buf []byte
	rs := make([]rune, k)
	for i := 0; i < k; i++ {
		rs[i] = verifScalar()
		buf = utf8.AppendRune(buf, rs[i])
	}
	return string(buf), rs
}

// VerifUTF16LiteralRoundTrip: text of K Unicode scalars -> EscapedUTF16String -> StringLiteralToString == text.
func VerifUTF16LiteralRoundTrip() {
	k := vp.IntRange(1, vp.Bound("K"))
	t, _ := verifText(k)
	e, err := EscapedUTF16String(t)
	vp.Assert(err == nil && e != nil, "EscapedUTF16String rejected valid Unicode text")
	back, err := StringLiteralToString(StringLiteral(*e))
	vp.Assert(err == nil, "StringLiteralToString failed on text stored by EscapedUTF16String")
	vp.Assert(back == t, "literal text string reads back differently")
}

// VerifUTF16HexRoundTrip: text -> EncodeUTF16String -> hex literal -> HexLiteralToString == text.
func VerifUTF16HexRoundTrip() {
	k := vp.IntRange(1, vp.Bound("K"))
	t, _ := verifText(k)
	hl := NewHexLiteral([]byte(EncodeUTF16String(t)))
	back, err := HexLiteralToString(hl)
	vp.Assert(err == nil, "HexLiteralToString failed on text stored by EncodeUTF16String")
	vp.Assert(back == t, "hex text string reads back differently")
}

// VerifUTF16DecodeTotal: decoding any well-formed UTF-16BE text string (BOM + K units, each a BMP
// non-surrogate code unit or a high+low surrogate pair) never fails.
func VerifUTF16DecodeTotal() {
	k := vp.IntRange(1, vp.Bound("K"))
	b := []byte{0xFE, 0xFF}
	for i := 0; i < k; i++ {
		if vp.Choice(2) == 0 {
			u := vp.Uint16()
			vp.Assume(u < 0xD800 || u > 0xDFFF)
			b = append(b, byte(u>>8), byte(u))
		} else {
			hi, lo := vp.Uint16(), vp.Uint16()
			vp.Assume(hi >= 0xD800 && hi <= 0xDBFF)
			vp.Assume(lo >= 0xDC00 && lo <= 0xDFFF)
			b = append(b, byte(hi>>8), byte(hi), byte(lo>>8), byte(lo))
		}
	}
	_, err := decodeUTF16String(b)
	vp.Assert(err == nil, "decodeUTF16String failed on a well-formed UTF-16BE text string")
}
