package types

import (
	"time"

	"github.com/pdfcpu/pdfcpu/internal/zzverif/vp"
)

func verifNoOutOfSpecDates(s string) (time.Time, bool) { return time.Time{}, false }

//verif:stub github.com/pdfcpu/pdfcpu/pkg/pdfcpu/types.digestPopularOutOfSpecDates=verifNoOutOfSpecDates
// VerifNoPanicTypes (C08): the string / name / date / text-string decoders return (a value or an error)
// on EVERY byte string of length <= N; a panic, an unbounded loop (unwinding failure) or runaway
// recursion is the violation.
func VerifNoPanicTypes() {
	n := vp.IntRange(0, vp.Bound("N"))
	s := vp.String(n)
	switch vp.Choice(8) {
	case 0:
		Unescape(s)
	case 1:
		DecodeName(s)
	case 2:
		DateTime(s, false)
	case 3:
		DateTime(s, true)
	case 4:
		decodeUTF16String([]byte(s))
	case 5:
		StringLiteralToString(StringLiteral(s))
	case 6:
		HexLiteralToString(HexLiteral(s))
	case 7:
		Escape(s)
		EncodeName(s)
		ByteForOctalString(s)
	}
	vp.Assert(true, "returned")
}
