package types

import (
	"github.com/pdfcpu/pdfcpu/internal/zzverif/vp"
)

// VerifEscapeRoundTrip: Unescape(Escape(s)) == s for every byte string of length <= N,
// and every parenthesis of the escaped form is escaped (preceded by an odd run of backslashes).
func VerifEscapeRoundTrip() {
	n := vp.IntRange(0, vp.Bound("N"))
	s := vp.Bytes(n)
	e, err := Escape(string(s))
	vp.Assert(err == nil && e != nil, "Escape failed")
	esc := *e
	back, err := Unescape(esc)
	vp.Assert(err == nil, "Unescape(Escape(s)) returned an error")
	vp.Assert(len(back) == len(s), "Unescape(Escape(s)) has a different length than s")
	same := true
	for i := range s {
		same = vp.And(same, back[i] == s[i])
	}
	vp.Assert(same, "Unescape(Escape(s)) differs from s")
	// escaped form: every '(' / ')' is preceded by an odd number of backslashes
	// (independent oracle: count the run of backslashes before each parenthesis)
	okParens := true
	for i := 0; i < len(esc); i++ {
		if esc[i] == '(' || esc[i] == ')' {
			run := 0
			for j := i - 1; j >= 0 && esc[j] == '\\'; j-- {
				run++
			}
			okParens = vp.And(okParens, run%2 == 1)
		}
	}
	vp.Assert(okParens, "escaped form contains an unescaped parenthesis")
}

func verifIsHexDigit(c byte) bool {
	return c >= '0' && c <= '9' || c >= 'a' && c <= 'f' || c >= 'A' && c <= 'F'
}

func verifIsRegularPrintable(c byte) bool {
	return c >= '!' && c <= '~' && !verifIsDelimiter(c)
}

func verifIsDelimiter(c byte) bool {
	switch c {
	case '(', ')', '<', '>', '[', ']', '{', '}', '/', '%':
		return true
	}
	return false
}

//verif:merge needsHexSequence verifIsRegularPrintable verifIsHexDigit
// VerifNameRoundTrip: DecodeName(EncodeName(s)) == s for every NUL-free string of length <= N;
// the encoded form consists of regular printable non-delimiter characters, '#' only as escape introducer.
func VerifNameRoundTrip() {
	n := vp.IntRange(0, vp.Bound("N"))
	b := vp.Bytes(n)
	for i := range b {
		vp.Assume(b[i] != 0)
	}
	s := string(b)
	enc := EncodeName(s)
	dec, err := DecodeName(enc)
	vp.Assert(err == nil, "DecodeName(EncodeName(s)) returned an error")
	vp.Assert(dec == s, "DecodeName(EncodeName(s)) differs from s")
	okAlphabet := true
	for i := 0; i < len(enc); i++ {
		c := enc[i]
		okAlphabet = vp.And(okAlphabet, verifIsRegularPrintable(c))
	}
	vp.Assert(okAlphabet, "encoded name contains a non-regular, non-printable or delimiter character")
	// '#' occurs only as an introducer followed by two hex digits
	okHash := true
	for i := 0; i < len(enc); i++ {
		if enc[i] == '#' {
			okHash = vp.And(okHash, i+2 < len(enc) && vp.And(verifIsHexDigit(enc[i+1]), verifIsHexDigit(enc[i+2])))
			i += 2
		}
	}
	vp.Assert(okHash, "encoded name contains '#' that does not introduce a two-digit hex escape")
}
