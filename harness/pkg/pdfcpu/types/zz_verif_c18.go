package types

// verifStubEncode replaces (*StreamDict).Encode in C18's xref stream harness: the stream is stored
// uncompressed (zlib on symbolic bytes is not encodable); Raw, StreamLength and /Length are set the
// way Encode sets them for an empty filter pipeline, /Filter is dropped to keep the dictionary truthful.
func verifStubEncode(sd *StreamDict) error {
	sd.Raw = sd.Content
	streamLength := int64(len(sd.Raw))
	sd.StreamLength = &streamLength
	sd.Delete("Filter")
	sd.FilterPipeline = nil
	sd.Update("Length", Integer(streamLength))
	return nil
}
