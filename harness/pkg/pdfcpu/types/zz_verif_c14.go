package types

import (
	"time"

	"github.com/pdfcpu/pdfcpu/internal/zzverif/vp"
)

func verifDaysIn(y, m int) int {
	switch m {
	case 2:
		if y%4 == 0 && y%100 != 0 || y%400 == 0 {
			return 29
		}
		return 28
	case 4, 6, 9, 11:
		return 30
	}
	return 31
}

func verifDigit(c byte) bool { return c >= '0' && c <= '9' }

func verifNum2(s string, i int) int { return int(s[i]-'0')*10 + int(s[i+1]-'0') }

// verifValidPDFDate: ISO 32000-1 7.9.4 "D:YYYYMMDDHHmmSSOHH'mm'" with all fields present and in range.
func verifValidPDFDate(s string) bool {
	if len(s) != 23 {
		return false
	}
	ok := s[0] == 'D' && s[1] == ':'
	for i := 2; i < 16; i++ {
		ok = vp.And(ok, verifDigit(s[i]))
	}
	ok = vp.And(ok, vp.Or(s[16] == '+', s[16] == '-'))
	ok = vp.And(ok, vp.And(verifDigit(s[17]), verifDigit(s[18])))
	ok = vp.And(ok, s[19] == '\'')
	ok = vp.And(ok, vp.And(verifDigit(s[20]), verifDigit(s[21])))
	ok = vp.And(ok, s[22] == '\'')
	mo, d, h, mi, sec := verifNum2(s, 6), verifNum2(s, 8), verifNum2(s, 10), verifNum2(s, 12), verifNum2(s, 14)
	oh, om := verifNum2(s, 17), verifNum2(s, 20)
	ok = vp.And(ok, vp.And(mo >= 1, mo <= 12))
	ok = vp.And(ok, vp.And(d >= 1, d <= 31))
	ok = vp.And(ok, vp.And(h <= 23, vp.And(mi <= 59, sec <= 59)))
	ok = vp.And(ok, vp.And(oh <= 23, om <= 59))
	return ok
}

//verif:merge verifDigit verifDaysIn
// VerifDateRoundTrip: for every time with year 0..9999 and whole-minute offset within +-23:59,
// DateString is a valid PDF date and DateTime(strict) reads back the same civil fields and offset.
func VerifDateRoundTrip() {
	y, mo, d := vp.IntIn(0, 9999), vp.IntIn(1, 12), vp.IntIn(1, 31)
	h, mi, s := vp.IntIn(0, 23), vp.IntIn(0, 59), vp.IntIn(0, 59)
	offMin := vp.IntIn(-1439, 1439)
	vp.Assume(d <= verifDaysIn(y, mo))
	t := time.Date(y, time.Month(mo), d, h, mi, s, 0, time.FixedZone("", offMin*60))
	ds := DateString(t)
	vp.Assert(verifValidPDFDate(ds), "DateString is not a valid ISO 32000 date string")
	back, ok := DateTime(ds, false)
	vp.Assert(ok, "strict DateTime rejected the output of DateString")
	_, boff := back.Zone()
	same := back.Year() == y && int(back.Month()) == mo && back.Day() == d &&
		back.Hour() == h && back.Minute() == mi && back.Second() == s
	vp.Assert(same, "date reads back with different civil fields")
	vp.Assert(boff == offMin*60, "date reads back with a different UTC offset")
}
