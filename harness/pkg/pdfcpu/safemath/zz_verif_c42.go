package safemath

import (
	"math"
	"math/bits"

	"github.com/pdfcpu/pdfcpu/internal/zzverif/vp"
)

// VerifAddInt: exact-or-overflow for AddInt over the full 2^128 operand space.
func VerifAddInt() {
	a, b := vp.Int(), vp.Int()
	r, err := AddInt(a, b)
	// reference: mathematical sum of two non-negative ints via 64-bit carry arithmetic
	sum, carry := bits.Add64(uint64(a), uint64(b), 0)
	fits := a >= 0 && b >= 0 && carry == 0 && sum <= math.MaxInt
	if err == nil {
		vp.Assert(fits, "AddInt succeeded although an operand is negative or the sum overflows")
		vp.Assert(uint64(r) == sum, "AddInt returned a value different from the mathematical sum")
	} else {
		vp.Assert(!fits, "AddInt reported overflow although the sum is representable")
		vp.Assert(r == 0, "AddInt returned a non-zero value together with an error")
	}
}

// VerifMultiplyInt: exact-or-overflow for MultiplyInt.
func VerifMultiplyInt() {
	a, b := vp.Int(), vp.Int()
	r, err := MultiplyInt(a, b)
	hi, lo := bits.Mul64(uint64(a), uint64(b))
	fits := a >= 0 && b >= 0 && hi == 0 && lo <= math.MaxInt
	if err == nil {
		vp.Assert(fits, "MultiplyInt succeeded although an operand is negative or the product overflows")
		vp.Assert(uint64(r) == lo, "MultiplyInt returned a value different from the mathematical product")
	} else {
		vp.Assert(!fits, "MultiplyInt reported overflow although the product is representable")
		vp.Assert(r == 0, "MultiplyInt returned a non-zero value together with an error")
	}
}

// VerifMultiplyInt64: exact-or-overflow for MultiplyInt64.
func VerifMultiplyInt64() {
	a, b := vp.Int64(), vp.Int64()
	r, err := MultiplyInt64(a, b)
	hi, lo := bits.Mul64(uint64(a), uint64(b))
	fits := a >= 0 && b >= 0 && hi == 0 && lo <= math.MaxInt64
	if err == nil {
		vp.Assert(fits, "MultiplyInt64 succeeded although an operand is negative or the product overflows")
		vp.Assert(uint64(r) == lo, "MultiplyInt64 returned a value different from the mathematical product")
	} else {
		vp.Assert(!fits, "MultiplyInt64 reported overflow although the product is representable")
		vp.Assert(r == 0, "MultiplyInt64 returned a non-zero value together with an error")
	}
}
