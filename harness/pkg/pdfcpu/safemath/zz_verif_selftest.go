package safemath

import (
	"errors"
	"fmt"

	"github.com/pdfcpu/pdfcpu/internal/zzverif/vp"
)

var errVerifSentinel = errors.New("sentinel")

// VerifSelfTestErrors exercises the engine's fmt.Errorf / errors.Is / errors.As models (engine self-test).
func VerifSelfTestErrors() {
	e1 := fmt.Errorf("%w with --opw", errVerifSentinel)
	vp.Assert(errors.Is(e1, errVerifSentinel), "errors.Is through %w failed")
	e2 := fmt.Errorf("outer: %w", e1)
	vp.Assert(errors.Is(e2, errVerifSentinel), "errors.Is through two %w failed")
	vp.Assert(!errors.Is(e2, errIntegerOverflow), "errors.Is matched an unrelated sentinel")
	e3 := errors.Join(e1, errIntegerOverflow)
	vp.Assert(errors.Is(e3, errIntegerOverflow), "errors.Is through Join failed")
	vp.Assert(e1.Error() == "sentinel with --opw", "Errorf message wrong")
	n := vp.IntIn(16, 99)
	s := fmt.Sprintf("%d|%03d|%x", n, n, uint(n))
	vp.Assert(len(s) == 2+1+3+1+2, "Sprintf with symbolic ints has the wrong length")
}
