package pdfcpu

import (
	"context"

	"github.com/pdfcpu/pdfcpu/internal/zzverif/vp"
	"github.com/pdfcpu/pdfcpu/pkg/pdfcpu/model"
	"github.com/pdfcpu/pdfcpu/pkg/pdfcpu/types"
)

func verifNameBytes(n int) string {
	b := vp.Bytes(n)
	for i := range b {
		vp.Assume(b[i] != 0)
	}
	return string(b)
}

// verifC11Leaf: null, boolean, integer, name without NUL, literal string (escaped form of arbitrary bytes),
// hex string, indirect reference - all with symbolic content.
func verifC11Leaf(kind int) types.Object {
	switch kind {
	case 0:
		return nil
	case 1:
		return types.Boolean(vp.Bool())
	case 2:
		return types.Integer(vp.IntIn(-vp.Bound("INTMAX"), vp.Bound("INTMAX")))
	case 3:
		return types.Name(verifNameBytes(vp.IntRange(1, vp.Bound("S"))))
	case 4:
		e, err := types.Escape(vp.String(vp.IntRange(0, vp.Bound("S"))))
		vp.Assume(err == nil)
		return types.StringLiteral(*e)
	case 5:
		return types.NewHexLiteral(vp.Bytes(vp.IntRange(0, vp.Bound("S"))))
	}
	return *types.NewIndirectRef(vp.IntIn(1, 99999), vp.IntIn(0, 9))
}

func verifC11Equal(a, b types.Object) bool {
	if a == nil || b == nil {
		return a == nil && b == nil
	}
	switch x := a.(type) {
	case types.Boolean:
		y, ok := b.(types.Boolean)
		return ok && x == y
	case types.Integer:
		y, ok := b.(types.Integer)
		return ok && x == y
	case types.Name:
		y, ok := b.(types.Name)
		return ok && x == y
	case types.StringLiteral:
		y, ok := b.(types.StringLiteral)
		return ok && x == y
	case types.HexLiteral:
		// hex strings are equal when they denote the same bytes (the parser normalises digit case)
		y, ok := b.(types.HexLiteral)
		if !ok {
			return false
		}
		bx, err1 := x.Bytes()
		by, err2 := y.Bytes()
		if err1 != nil || err2 != nil || len(bx) != len(by) {
			return false
		}
		same := true
		for i := range bx {
			same = vp.And(same, bx[i] == by[i])
		}
		return same
	case types.IndirectRef:
		y, ok := b.(types.IndirectRef)
		return ok && x == y
	case types.Array:
		y, ok := b.(types.Array)
		if !ok || len(x) != len(y) {
			return false
		}
		for i := range x {
			if !verifC11Equal(x[i], y[i]) {
				return false
			}
		}
		return true
	case types.Dict:
		y, ok := b.(types.Dict)
		if !ok {
			return false
		}
		n := 0
		for k, v := range x {
			if v == nil {
				continue // entries whose value is null read back as absent
			}
			n++
			w, found := y[k]
			if !found || !verifC11Equal(v, w) {
				return false
			}
		}
		return n == len(y)
	}
	return false
}

func verifC11Check(obj types.Object) {
	text, err := appendPDFObject(nil, obj)
	vp.Assert(err == nil, "appendPDFObject failed")
	s := string(text)
	back, err := model.ParseObjectContext(context.Background(), &s, 0)
	vp.Assert(err == nil, "the written object does not parse")
	vp.Assert(verifC11Equal(obj, back), "the written object parses back to a different object")
}

// VerifObjectLeafRoundTrip (C11): appendPDFObject then model.ParseObjectContext is the identity on every
// leaf kind with symbolic content (integers up to INTMAX in magnitude, names/strings/hex strings up to S bytes).
func VerifObjectLeafRoundTrip() {
	verifC11Check(verifC11Leaf(vp.Choice(7)))
}

// verifC11Light: concrete representative leaves (the symbolic content of leaves is covered by the leaf harness).
func verifC11Light(kind int) types.Object {
	switch kind {
	case 0:
		return nil
	case 1:
		return types.Boolean(vp.Choice(2) == 1)
	case 2:
		return types.Integer([]int{0, -7, 42}[vp.Choice(3)])
	case 3:
		return types.Name([]string{"a", "#", "A B", "1"}[vp.Choice(4)])
	case 4:
		e, _ := types.Escape([]string{"", "x", "(", "\\"}[vp.Choice(4)])
		return types.StringLiteral(*e)
	case 5:
		return types.NewHexLiteral([][]byte{{}, {0x0a}, {0xff, 0x00}}[vp.Choice(3)])
	}
	return *types.NewIndirectRef([]int{1, 12}[vp.Choice(2)], 0)
}

// VerifObjectPairRoundTrip (C11): arrays of two leaves for every ordered pair of neighbouring leaf kinds
// (the writer's separator decisions), a nested array/dict, and dictionaries with a symbolic one-byte key.
func VerifObjectPairRoundTrip() {
	var obj types.Object
	switch vp.Choice(4) {
	case 0:
		obj = types.Array{verifC11Light(vp.Choice(7)), verifC11Light(vp.Choice(7))}
	case 1:
		obj = types.Dict{verifNameBytes(1): verifC11Light(vp.Choice(7)), "Z": types.Integer(7)}
	case 2:
		obj = types.Array{verifC11Light(vp.Choice(7)), types.Array{verifC11Light(vp.Choice(7))}, types.Dict{"K": verifC11Light(vp.Choice(7))}}
	case 3:
		obj = types.Dict{"A": types.Array{verifC11Light(vp.Choice(7))}, "B": types.Dict{"C": verifC11Light(vp.Choice(7))}}
	}
	verifC11Check(obj)
}
