package pdfcpu

import (
	"errors"

	"github.com/pdfcpu/pdfcpu/internal/zzverif/vp"
	"github.com/pdfcpu/pdfcpu/pkg/pdfcpu/model"
	"github.com/pdfcpu/pdfcpu/pkg/pdfcpu/types"
)

// ---- stubs for the cryptographic validators: their OUTCOME is a symbolic boolean ----

var verifOwnerOK, verifUserOK, verifPermsOK bool

func verifStubValidateOwner(ctx *model.Context) (bool, error) { return verifOwnerOK, nil }
func verifStubValidateUser(ctx *model.Context) (bool, error)  { return verifUserOK, nil }
func verifStubValidatePerms(ctx *model.Context) (bool, error) { return verifPermsOK, nil }

var verifEnc *model.Enc

func verifStubSupportedEncryption(ctx *model.Context, d types.Dict) (*model.Enc, error) {
	return verifEnc, nil
}

func verifNewContext(cmd model.CommandMode, upw, opw string, p, r int) *model.Context {
	conf := &model.Configuration{}
	conf.Cmd = cmd
	conf.UserPW = upw
	conf.OwnerPW = opw
	xt := &model.XRefTable{ValidationMode: model.ValidationRelaxed} // a missing trailer /ID is tolerated when relaxed
	verifEnc = &model.Enc{P: p, R: r}
	xt.E = verifEnc
	return &model.Context{Configuration: conf, XRefTable: xt}
}

func verifPW(empty bool) string {
	if empty {
		return ""
	}
	return "secret"
}

// verifNeeds re-reads pdfcpu's own classification table.
func verifNeeds(mode model.CommandMode) (extract, modify bool) {
	p, ok := perm[mode]
	return ok && p.extract != 0, ok && p.modify != 0
}

//verif:stub github.com/pdfcpu/pdfcpu/pkg/pdfcpu.validatePermissions=verifStubValidatePerms
// VerifPermissionGate (C26): with a non-empty user password and user-password-only access, a command is
// refused with ErrPermissionDenied exactly when pdfcpu classifies it as needing extract (modify) rights
// and the document's extract (modify) bit for its revision is clear. P ranges over all 2^32 permission
// words (sign-extended as stored), the command over every CommandMode value, R over 2..6.
func VerifPermissionGate() {
	mode := model.CommandMode(vp.IntIn(0, int(model.ZOOM)+3))
	p := int(vp.Int32())
	r := vp.IntRange(2, 6)
	verifPermsOK = true
	ctx := verifNewContext(mode, "secret", verifPW(vp.Bool()), p, r)
	err := handlePermissions(ctx)
	needExtract, needModify := verifNeeds(mode)
	// bit layout as documented by pdfcpu (1-based bit numbers of ISO 32000-1 Table 22)
	extractBit, modifyBit := 5, 4
	if r >= 3 {
		extractBit, modifyBit = 10, 11
	}
	extractGranted := p&(1<<uint(extractBit-1)) != 0
	modifyGranted := p&(1<<uint(modifyBit-1)) != 0
	denied := vp.Or(vp.And(needExtract, !extractGranted), vp.And(needModify, !modifyGranted))
	if err != nil {
		vp.Assert(errors.Is(err, ErrPermissionDenied), "permission check failed with an error other than ErrPermissionDenied")
		vp.Assert(denied, "a command whose rights are granted was refused")
	} else {
		vp.Assert(!denied, "a command was allowed although the document denies the rights it needs")
	}
}

//verif:stub github.com/pdfcpu/pdfcpu/pkg/pdfcpu.validatePermissions=verifStubValidatePerms
//verif:stub github.com/pdfcpu/pdfcpu/pkg/pdfcpu.validateOwnerPassword=verifStubValidateOwner
//verif:stub github.com/pdfcpu/pdfcpu/pkg/pdfcpu.validateUserPassword=verifStubValidateUser
//verif:stub github.com/pdfcpu/pdfcpu/pkg/pdfcpu.supportedEncryption=verifStubSupportedEncryption
// VerifPasswordGate (C25, decision logic): over all outcomes of the three cryptographic validators, all
// command modes, permission words and password emptiness:
//   - neither password valid  => an error, and it is ErrWrongPassword or ErrOwnerPasswordRequired;
//   - change owner pw / change user pw / set permissions without the valid owner password => error;
//   - success => (owner or user password valid) and the permission block validated.
func VerifPasswordGate() {
	mode := model.CommandMode(vp.IntIn(0, int(model.ZOOM)+3))
	p := int(vp.Int32())
	r := vp.IntRange(2, 6)
	verifOwnerOK, verifUserOK, verifPermsOK = vp.Bool(), vp.Bool(), vp.Bool()
	ctx := verifNewContext(mode, verifPW(vp.Bool()), verifPW(vp.Bool()), p, r)
	err := setupEncryptionKey(ctx, types.Dict{})
	if !verifOwnerOK && !verifUserOK {
		vp.Assert(err != nil, "document opened although neither the user nor the owner password is valid")
		vp.Assert(errors.Is(err, ErrWrongPassword) || errors.Is(err, ErrOwnerPasswordRequired), "wrong credentials rejected with an unexpected error")
	}
	if (mode == model.CHANGEOPW || mode == model.CHANGEUPW || mode == model.SETPERMISSIONS) && !verifOwnerOK {
		vp.Assert(err != nil, "password/permission change accepted without the current owner password")
	}
	if err == nil {
		vp.Assert(verifOwnerOK || verifUserOK, "success without any valid password")
		vp.Assert(verifPermsOK, "success although the encrypted permission block did not validate")
	}
}
