package pdfcpu

import (
	"bufio"
	"bytes"
	"strconv"

	"github.com/pdfcpu/pdfcpu/internal/zzverif/vp"
	"github.com/pdfcpu/pdfcpu/pkg/pdfcpu/model"
	"github.com/pdfcpu/pdfcpu/pkg/pdfcpu/types"
)

// ---- independent, non-repairing readers used as oracles (ISO 32000-1 7.2.2, 7.5.4, 7.5.7) ----

func verifIsWhite(c byte) bool {
	return c == 0 || c == 9 || c == 10 || c == 12 || c == 13 || c == 32
}

func verifIsDelim(c byte) bool {
	switch c {
	case '(', ')', '<', '>', '[', ']', '{', '}', '/', '%':
		return true
	}
	return false
}

// verifUint reads an unsigned decimal of 1..maxDigits digits at b[i:]; ok=false if there is none.
func verifUint(b []byte, i, maxDigits int) (v int64, next int, ok bool) {
	next = i
	for next < len(b) && next-i < maxDigits && b[next] >= '0' && b[next] <= '9' {
		v = v*10 + int64(b[next]-'0')
		next++
	}
	return v, next, next > i
}

func verifHasPrefixAt(b []byte, i int, p string) bool {
	if i < 0 || i+len(p) > len(b) {
		return false
	}
	for k := 0; k < len(p); k++ {
		if b[i+k] != p[k] {
			return false
		}
	}
	return true
}

func verifEol() string {
	switch vp.IntRange(0, 2) {
	case 0:
		return "\n"
	case 1:
		return "\r"
	}
	return "\r\n"
}

// VerifObjectStreamLayout (C18: "... or the stated index of a valid object stream"): K objects of
// every leaf/container kind with symbolic content are added to an object stream by the writer's own
// addObjectStreamObject + Finalize. A reader that trusts the stream (no repair, no use of the next
// offset as an end marker) must find, at First+offset[i], exactly the serialisation of object i,
// followed by a token boundary: two neighbouring objects whose adjacent characters are both regular
// characters would lex as one token (7.2.2), i.e. the index would not locate the object.
func VerifObjectStreamLayout() {
	k := vp.IntRange(1, vp.Bound("K"))
	osd := *types.NewObjectStreamDict()
	objs := make([]types.Object, k)
	nrs := make([]int, k)
	for i := 0; i < k; i++ {
		kind := vp.IntRange(0, 8)
		switch {
		case kind <= 6:
			objs[i] = verifC11Leaf(kind)
		case kind == 7:
			objs[i] = types.Array{types.Integer(vp.IntIn(0, 9))}
		default:
			objs[i] = types.Dict{"A": types.Boolean(vp.Bool())}
		}
		nrs[i] = vp.IntIn(1, 99)
		var err error
		osd, err = addObjectStreamObject(osd, nrs[i], objs[i])
		if err != nil {
			return
		}
	}
	vp.Assert(osd.ObjCount == k, "object stream /N differs from the number of objects added")
	osd.Finalize()
	content := osd.Content
	first := osd.FirstObjOffset
	vp.Assert(first >= 0 && first <= len(content), "/First outside the stream")
	// prolog: N pairs "objNr offset" separated by white space
	pos := 0
	starts := make([]int, k)
	for i := 0; i < k; i++ {
		for pos < first && verifIsWhite(content[pos]) {
			pos++
		}
		nr, p2, ok := verifUint(content[:first], pos, 10)
		vp.Assert(ok, "object stream prolog: object number missing")
		vp.Assert(int(nr) == nrs[i], "object stream prolog: wrong object number")
		pos = p2
		vp.Assert(pos < first && verifIsWhite(content[pos]), "object stream prolog: no white space after object number")
		for pos < first && verifIsWhite(content[pos]) {
			pos++
		}
		off, p3, ok := verifUint(content[:first], pos, 10)
		vp.Assert(ok, "object stream prolog: offset missing")
		pos = p3
		vp.Assert(pos == first || verifIsWhite(content[pos]), "object stream prolog: offset not terminated")
		starts[i] = first + int(off)
		vp.Assert(starts[i] >= first && starts[i] <= len(content), "object stream offset outside the stream")
		if i > 0 {
			vp.Assert(starts[i] >= starts[i-1], "object stream offsets are not increasing")
		}
	}
	for i := 0; i < k; i++ {
		want, err := appendPDFObject(nil, objs[i])
		if err != nil {
			return
		}
		at := starts[i]
		vp.Assert(at+len(want) <= len(content), "object stream: object does not fit at its stated offset")
		same := true
		for j := range want {
			same = vp.And(same, content[at+j] == want[j])
		}
		vp.Assert(same, "object stream: the bytes at the stated offset are not the object")
		end := at + len(want)
		if end < len(content) && len(want) > 0 {
			a, b := content[end-1], content[end]
			boundary := vp.Or(vp.Or(verifIsWhite(a), verifIsDelim(a)), vp.Or(verifIsWhite(b), verifIsDelim(b)))
			vp.Assert(boundary, "object stream: object runs into its neighbour (no token boundary), a reader lexes both as one token")
		}
	}
}

func verifWriteCtx(eol string, base int64) (*model.Context, *bytes.Buffer) {
	var buf bytes.Buffer
	ctx := &model.Context{Configuration: &model.Configuration{}, XRefTable: &model.XRefTable{Table: map[int]*model.XRefTableEntry{}}}
	ctx.Write = model.NewWriteContext(eol)
	ctx.Write.Writer = bufio.NewWriter(&buf)
	ctx.Write.Offset = base
	return ctx, &buf
}

// VerifWriteObjectOffsets (C18: "every in-use object's cross-reference entry locates that object
// exactly"): writeObject is run for two objects (symbolic numbers, generations, bodies, end-of-line
// convention) from a symbolic file position; afterwards the offset recorded for each object is the
// position of its "n g obj" header in the bytes written, and the running offset equals the position
// of the next byte.
func VerifWriteObjectOffsets() {
	eol := verifEol()
	base := int64(vp.IntIn(0, 1<<40))
	ctx, buf := verifWriteCtx(eol, base)
	n1, g1 := vp.IntIn(1, vp.Bound("OBJMAX")), vp.IntIn(0, vp.Bound("GENMAX"))
	n2, g2 := vp.IntIn(1, vp.Bound("OBJMAX")), vp.IntIn(0, vp.Bound("GENMAX"))
	vp.Assume(n1 != n2)
	s1 := vp.String(vp.IntRange(0, vp.Bound("S")))
	s2 := vp.String(vp.IntRange(0, vp.Bound("S")))
	if err := writeObject(ctx, n1, g1, s1); err != nil {
		return
	}
	mid := ctx.Write.Offset
	if err := writeObject(ctx, n2, g2, s2); err != nil {
		return
	}
	if err := ctx.Write.Flush(); err != nil {
		return
	}
	out := buf.Bytes()
	vp.Assert(ctx.Write.Offset == base+int64(len(out)), "running write offset differs from the number of bytes written")
	o1, ok1 := ctx.Write.Table[n1]
	o2, ok2 := ctx.Write.Table[n2]
	vp.Assert(ok1 && ok2, "no write offset recorded for a written object")
	vp.Assert(o1 == base && o2 == mid, "recorded write offset is not where the object starts")
	vp.Assert(mid > base && mid-base <= int64(len(out)), "offset of the second object outside the output")
	vp.Assert(verifObjHeaderAt(out, 0, n1, g1, eol), "no 'n g obj' header of object 1 at its recorded offset")
	vp.Assert(verifObjHeaderAt(out, int(o2-base), n2, g2, eol), "no 'n g obj' header of object 2 at its recorded offset")
	// the body and "endobj" follow the header
	end1 := int(mid - base)
	vp.Assert(verifHasPrefixAt(out, end1-len(eol)-6-len(eol), eol+"endobj"+eol), "object 1 does not end with endobj before the next object")
	vp.Assert(verifHasPrefixAt(out, len(out)-len(eol)-6-len(eol), eol+"endobj"+eol), "object 2 does not end with endobj")
}

func verifObjHeaderAt(out []byte, at, nr, gen int, eol string) bool {
	v, p, ok := verifUint(out, at, 10)
	if !ok || int(v) != nr || p >= len(out) || out[p] != ' ' {
		return false
	}
	if out[at] == '0' && p-at > 1 {
		return false
	}
	g, p2, ok := verifUint(out, p+1, 5)
	if !ok || int(g) != gen {
		return false
	}
	return verifHasPrefixAt(out, p2, " obj"+eol)
}

// VerifXRefTableSection (C18): writeXRefTable on an arbitrary small table - objects 1..OBJ each absent,
// free (arbitrary link/generation) or written at an arbitrary offset, any end-of-line convention,
// xref position symbolic. A strict reader of the classic cross reference section (7.5.4: 20-byte
// entries "nnnnnnnnnn ggggg n|f" + 2-byte EOL, subsections "start count") must get back exactly the
// table: every written object at its recorded offset, every free object with its link and generation,
// nothing else; "startxref" carries the position of the "xref" keyword and /Size is the table's size.
func VerifXRefTableSection() {
	eol := verifEol()
	n := vp.Bound("OBJ")
	xrefPos := int64(vp.IntIn(0, vp.Bound("OFFMAX")))
	ctx, buf := verifWriteCtx(eol, xrefPos)
	xt := ctx.XRefTable
	zero := int64(0)
	g0 := types.FreeHeadGeneration
	xt.Table[0] = &model.XRefTableEntry{Free: true, Offset: &zero, Generation: &g0}
	type want struct {
		present, free bool
		off           int64
		gen           int
	}
	wants := make([]want, n+1)
	wants[0] = want{true, true, 0, g0}
	for k := 1; k <= n; k++ {
		switch vp.IntRange(0, 2) {
		case 1:
			off := int64(vp.IntIn(0, vp.Bound("OFFMAX")))
			gen := vp.IntIn(0, 65535)
			xt.Table[k] = &model.XRefTableEntry{Offset: &zero, Generation: &gen}
			ctx.Write.Table[k] = off
			wants[k] = want{true, false, off, gen}
		case 2:
			off := int64(vp.IntIn(0, n+1))
			gen := vp.IntIn(0, 65535)
			xt.Table[k] = &model.XRefTableEntry{Free: true, Offset: &off, Generation: &gen}
			wants[k] = want{true, true, off, gen}
		}
	}
	size := n + 1
	xt.Size = &size
	root := *types.NewIndirectRef(1, 0)
	xt.Root = &root
	// incremental update: only the objects written in this increment are listed (free entries and
	// object 0 are not), and the trailer carries /Prev
	incr := vp.Bool()
	if incr {
		prev := int64(vp.IntIn(0, vp.Bound("OFFMAX")))
		ctx.Write.Increment, ctx.Write.OffsetPrevXRef = true, &prev
		anyWritten := false
		for k := 0; k <= n; k++ {
			if wants[k].free {
				wants[k] = want{}
			}
			anyWritten = anyWritten || wants[k].present
		}
		vp.Assume(anyWritten) // an increment without a single object is not written at all
	}
	if err := writeXRefTable(ctx); err != nil {
		return
	}
	if err := ctx.Write.Flush(); err != nil {
		return
	}
	out := buf.Bytes()
	vp.Assert(verifHasPrefixAt(out, 0, "xref"+eol), "cross reference section does not start with 'xref' EOL")
	pos := 4 + len(eol)
	seen := make([]bool, n+1)
	for !verifHasPrefixAt(out, pos, "trailer") {
		start, p, ok := verifUint(out, pos, 10)
		vp.Assert(ok && p < len(out) && out[p] == ' ', "xref subsection header: first object number missing")
		count, p2, ok := verifUint(out, p+1, 10)
		vp.Assert(ok && verifHasPrefixAt(out, p2, eol), "xref subsection header: count missing or not followed by EOL")
		vp.Assert(count >= 1 && start+count <= int64(n)+1, "xref subsection outside the table")
		pos = p2 + len(eol)
		for i := int64(0); i < count; i++ {
			vp.Assert(pos+20 <= len(out), "xref entry truncated")
			off, p3, ok := verifUint(out, pos, 10)
			vp.Assert(ok && p3 == pos+10 && out[p3] == ' ', "xref entry: offset is not 10 digits followed by a space")
			gen, p4, ok := verifUint(out, pos+11, 5)
			vp.Assert(ok && p4 == pos+16 && out[p4] == ' ', "xref entry: generation is not 5 digits followed by a space")
			kind := out[pos+17]
			e0, e1 := out[pos+18], out[pos+19]
			vp.Assert((e0 == ' ' && (e1 == '\n' || e1 == '\r')) || (e0 == '\r' && e1 == '\n'), "xref entry: not terminated by a two byte end-of-line")
			obj := int(start + i)
			w := wants[obj]
			vp.Assert(w.present && !seen[obj], "xref section lists an object that is not in the table, or lists it twice")
			seen[obj] = true
			if w.free {
				vp.Assert(kind == 'f', "free object not marked f")
			} else {
				vp.Assert(kind == 'n', "in-use object not marked n")
			}
			vp.Assert(off == w.off, "xref entry does not carry the object's write offset / next free object")
			vp.Assert(int(gen) == w.gen, "xref entry does not carry the object's generation")
			pos += 20
		}
	}
	for k := 0; k <= n; k++ {
		vp.Assert(seen[k] == wants[k].present, "an object of the table is missing from the xref section")
	}
	pos += 7
	vp.Assert(verifHasPrefixAt(out, pos, eol+"<<"), "trailer keyword not followed by EOL and a dictionary")
	// the file ends: >> EOL startxref EOL <pos of xref> EOL
	tail := eol + "startxref" + eol
	q := len(out) - len(eol)
	vp.Assert(verifHasPrefixAt(out, q, eol), "startxref value not followed by EOL")
	d := q
	for d > 0 && out[d-1] >= '0' && out[d-1] <= '9' {
		d--
	}
	v, _, ok := verifUint(out, d, 19)
	vp.Assert(ok && v == xrefPos, "startxref does not point at the xref keyword")
	vp.Assert(verifHasPrefixAt(out, d-len(tail), tail), "startxref keyword missing before its value")
	vp.Assert(verifHasPrefixAt(out, d-len(tail)-2, ">>"), "trailer dictionary not closed before startxref")
}

// VerifXRefStreamSection (C18, xref stream variant): writeXRefStream on an arbitrary small table -
// objects 1..OBJ each absent, free, written at a symbolic offset below the xref position, or compressed
// into an object stream at a symbolic index - from a symbolic file position. A strict reader then
// decodes the stream with the /W widths and the /Index subsections it finds in the dictionary: every
// row must have exactly W[0]+W[1]+W[2] bytes and carry the table's type / offset|stream number /
// generation|index; the xref stream's own entry must point at its "n 0 obj" header; /Length must be
// the number of bytes between "stream" EOL and EOL "endstream"; startxref must carry the position.
// Compression is replaced by the identity (stub of StreamDict.Encode); everything else is the real writer.
//
//verif:stub (*github.com/pdfcpu/pdfcpu/pkg/pdfcpu/types.StreamDict).Encode=github.com/pdfcpu/pdfcpu/pkg/pdfcpu/types.verifStubEncode
func VerifXRefStreamSection() {
	eol := verifEol()
	n := vp.Bound("OBJ")
	xrefPos := int64(vp.IntIn(1, vp.Bound("POSMAX")))
	ctx, buf := verifWriteCtx(eol, xrefPos)
	ctx.WriteXRefStream = true
	xt := ctx.XRefTable
	zero := int64(0)
	g0 := types.FreeHeadGeneration
	xt.Table[0] = &model.XRefTableEntry{Free: true, Offset: &zero, Generation: &g0}
	type want struct {
		present bool
		typ     int
		f2, f3  int64
	}
	wants := make([]want, n+2)
	wants[0] = want{true, 0, 0, int64(g0)}
	for k := 1; k <= n; k++ {
		switch vp.IntRange(0, 3) {
		case 1: // written at off < xrefPos
			off := int64(vp.IntIn(0, vp.Bound("POSMAX")))
			vp.Assume(off < xrefPos)
			gen := vp.IntIn(0, 65535)
			xt.Table[k] = &model.XRefTableEntry{Offset: &zero, Generation: &gen}
			ctx.Write.Table[k] = off
			wants[k] = want{true, 1, off, int64(gen)}
		case 2: // free
			next := int64(vp.IntIn(0, n))
			gen := vp.IntIn(0, 65535)
			xt.Table[k] = &model.XRefTableEntry{Free: true, Offset: &next, Generation: &gen}
			wants[k] = want{true, 0, next, int64(gen)}
		case 3: // compressed into object stream os at index ind
			os := vp.IntIn(1, n)
			ind := vp.IntIn(0, ObjectStreamMaxObjects-1)
			gen := 0
			xt.Table[k] = &model.XRefTableEntry{Compressed: true, ObjectStream: &os, ObjectStreamInd: &ind, Generation: &gen}
			ctx.Write.Table[k] = 0 // fake offset, as writeToObjectStream records it
			wants[k] = want{true, 2, int64(os), int64(ind)}
		}
	}
	size := n + 1
	xt.Size = &size
	root := *types.NewIndirectRef(1, 0)
	xt.Root = &root
	if err := writeXRefStream(ctx); err != nil {
		return
	}
	if err := ctx.Write.Flush(); err != nil {
		return
	}
	out := buf.Bytes()
	own := n + 1
	vp.Assert(*xt.Size == n+2, "xref stream object did not extend the table by one object")
	e, ok := xt.Table[own]
	vp.Assert(ok && e != nil && !e.Free, "xref stream object is not in the table")
	xsd, ok := e.Object.(types.XRefStreamDict)
	vp.Assert(ok, "xref stream object is not an XRefStreamDict")
	wants[own] = want{true, 1, xrefPos, 0}
	d := xsd.Dict
	sz := d.IntEntry("Size")
	vp.Assert(sz != nil && *sz == n+2, "/Size is not one more than the highest object number")
	wa := d.ArrayEntry("W")
	vp.Assert(len(wa) == 3, "/W does not have three entries")
	w0, w1, w2 := int(wa[0].(types.Integer)), int(wa[1].(types.Integer)), int(wa[2].(types.Integer))
	vp.Assert(w0 >= 1 && w1 >= 1 && w2 >= 1, "/W width below 1")
	lp := d.Int64Entry("Length")
	vp.Assert(lp != nil, "/Length missing")
	length := int(*lp)
	// --- locate the stream data in the bytes written
	vp.Assert(verifObjHeaderAt(out, 0, own, 0, eol), "the xref stream's own offset does not point at its 'n 0 obj' header")
	hdr := len(objectHeader(own, 0, eol))
	dictStr := xsd.StreamDict.PDFString()
	vp.Assert(verifHasPrefixAt(out, hdr, dictStr), "stream dictionary not found after the object header")
	p := hdr + len(dictStr)
	vp.Assert(verifHasPrefixAt(out, p, eol+"stream"+eol), "stream keyword missing after the dictionary")
	ds := p + len(eol) + 6 + len(eol)
	vp.Assert(ds+length <= len(out), "/Length exceeds the bytes written")
	vp.Assert(verifHasPrefixAt(out, ds+length, eol+"endstream"+eol+"endobj"+eol), "/Length is not the number of bytes before endstream")
	after := ds + length + len(eol) + 9 + len(eol) + 6 + len(eol)
	// --- rows
	ia := d.ArrayEntry("Index")
	vp.Assert(len(ia) >= 2 && len(ia)%2 == 0, "/Index is not a list of pairs")
	rowLen := w0 + w1 + w2
	seen := make([]bool, n+2)
	row := 0
	for s := 0; s < len(ia); s += 2 {
		start, count := int(ia[s].(types.Integer)), int(ia[s+1].(types.Integer))
		vp.Assert(count >= 1 && start >= 0 && start+count <= n+2, "/Index subsection outside 0../Size")
		for i := 0; i < count; i++ {
			obj := start + i
			vp.Assert((row+1)*rowLen <= length, "xref stream holds fewer rows than /Index announces")
			at := ds + row*rowLen
			typ := verifBE(out, at, w0)
			f2 := verifBE(out, at+w0, w1)
			f3 := verifBE(out, at+w0+w1, w2)
			w := wants[obj]
			vp.Assert(w.present && !seen[obj], "xref stream lists an object that is not in the table, or lists it twice")
			seen[obj] = true
			vp.Assert(typ == int64(w.typ), "xref stream row has the wrong entry type")
			vp.Assert(f2 == w.f2, "xref stream row field 2 is not the object's offset / next free object / object stream number")
			vp.Assert(f3 == w.f3, "xref stream row field 3 is not the object's generation / index in the object stream")
			row++
		}
	}
	vp.Assert(row*rowLen == length, "xref stream data is not a whole number of /W rows matching /Index")
	for k := 0; k <= n+1; k++ {
		vp.Assert(seen[k] == wants[k].present, "an object of the table is missing from the xref stream")
	}
	// --- startxref
	tail := "startxref" + eol
	vp.Assert(verifHasPrefixAt(out, after, tail), "startxref keyword does not follow the xref stream object")
	pos := strconv.FormatInt(xrefPos, 10)
	vp.Assert(verifHasPrefixAt(out, after+len(tail), pos+eol), "startxref does not point at the xref stream object")
	vp.Assert(after+len(tail)+len(pos)+len(eol) == len(out), "startxref value is not the last line written")
}

// verifBE decodes w big-endian bytes at out[at:].
func verifBE(out []byte, at, w int) int64 {
	var v int64
	for i := 0; i < w; i++ {
		v = v<<8 | int64(out[at+i])
	}
	return v
}

// VerifStreamLengthAfterEncode (C18: "every stream's /Length equals its byte count"): a stream
// dictionary that was read with some /Length (symbolic, stale) and whose content was replaced since
// (symbolic bytes, e.g. a stamp appended to a page's content stream) is encoded without a filter and
// written; the /Length in the bytes written must be the number of bytes between "stream" EOL and EOL
// "endstream", and those bytes must be the new content.
func VerifStreamLengthAfterEncode() {
	eol := verifEol()
	ctx, buf := verifWriteCtx(eol, 0)
	stale := vp.IntIn(0, 99)
	content := vp.Bytes(vp.IntRange(0, vp.Bound("S")))
	sl := int64(stale)
	sd := types.StreamDict{Dict: types.Dict{"Length": types.Integer(stale)}, StreamLength: &sl}
	sd.Content = append([]byte{}, content...)
	if err := sd.Encode(); err != nil {
		return
	}
	if err := writeStreamDictObject(ctx, 7, 0, sd); err != nil {
		return
	}
	if err := ctx.Write.Flush(); err != nil {
		return
	}
	out := buf.Bytes()
	hdr := objectHeader(7, 0, eol)
	vp.Assert(verifHasPrefixAt(out, 0, hdr), "object header missing")
	// the dictionary is "<</Length N>>": read N with the strict integer reader
	pre := "<</Length "
	vp.Assert(verifHasPrefixAt(out, len(hdr), pre), "stream dictionary does not start with /Length")
	n, p, ok := verifUint(out, len(hdr)+len(pre), 10)
	vp.Assert(ok && verifHasPrefixAt(out, p, ">>"+eol+"stream"+eol), "stream keyword does not follow the dictionary")
	ds := p + 2 + len(eol) + 6 + len(eol)
	vp.Assert(int(n) == len(content), "/Length is not the length of the stream's current content")
	vp.Assert(ds+int(n) <= len(out) && verifHasPrefixAt(out, ds+int(n), eol+"endstream"+eol+"endobj"+eol), "/Length is not the number of bytes before endstream")
	for i := range content {
		vp.Assert(ds+i < len(out) && out[ds+i] == content[i], "the stream bytes written are not the current content")
	}
}
