package pdfcpu

import (
	"github.com/pdfcpu/pdfcpu/internal/zzverif/vp"
	"github.com/pdfcpu/pdfcpu/pkg/pdfcpu/model"
	"github.com/pdfcpu/pdfcpu/pkg/pdfcpu/types"
)

// VerifMergeRenumbering (C33, merge half, object renumbering): before a source document is merged into
// a destination its object numbers are moved behind the destination's (lookupTable) and every reference
// is patched (patchObject). For K symbolic distinct source object numbers and a symbolic destination
// size the table must be injective, land exactly on size..size+K-1 (no collision with a destination
// object, no gap), and patching a nested object must rewrite exactly the references to source objects -
// same generation, everything else untouched. Map iteration order is arbitrary (-maprotate).
func VerifMergeRenumbering() {
	k := vp.IntRange(1, vp.Bound("K"))
	keys := types.IntSet{}
	nrs := make([]int, k)
	for i := range nrs {
		nrs[i] = vp.IntIn(1, 99)
		for j := 0; j < i; j++ {
			vp.Assume(nrs[i] != nrs[j])
		}
		keys[nrs[i]] = true
	}
	size := vp.IntIn(1, 1000)
	lookup := lookupTable(keys, size)
	vp.Assert(len(lookup) == k, "renumbering table does not have one entry per source object")
	used := make([]bool, k)
	for i := range nrs {
		v, ok := lookup[nrs[i]]
		vp.Assert(ok, "a source object has no new number")
		vp.Assert(v >= size && v < size+k, "a new object number collides with the destination's numbers or leaves a gap")
		if v >= size && v < size+k {
			vp.Assert(!used[v-size], "two source objects get the same new number")
			used[v-size] = true
		}
	}
	// patching
	r1, g1 := vp.IntIn(1, 99), vp.IntIn(0, 9)
	r2 := vp.IntIn(1, 99)
	want := func(n int) int {
		for i := range nrs {
			if nrs[i] == n {
				return lookup[nrs[i]]
			}
		}
		return n
	}
	w1, w2 := want(r1), want(r2)
	inner := types.Dict{"R": *types.NewIndirectRef(r2, 0), "S": types.StringLiteral("s")}
	d := types.Dict{
		"A": types.Array{*types.NewIndirectRef(r1, g1), types.Integer(r1), inner},
		"N": types.Name("x"),
	}
	out := patchObject(d, lookup)
	pd, ok := out.(types.Dict)
	vp.Assert(ok, "patched dictionary is not a dictionary")
	a, _ := pd["A"].(types.Array)
	vp.Assert(len(a) == 3, "patched array changed length")
	ir, ok := a[0].(types.IndirectRef)
	vp.Assert(ok && ir.ObjectNumber.Value() == w1 && ir.GenerationNumber.Value() == g1, "reference in an array not renumbered correctly")
	vp.Assert(a[1] == types.Integer(r1), "an integer that equals an object number was rewritten")
	id, _ := a[2].(types.Dict)
	ir2, ok := id["R"].(types.IndirectRef)
	vp.Assert(ok && ir2.ObjectNumber.Value() == w2 && ir2.GenerationNumber.Value() == 0, "reference in a nested dictionary not renumbered correctly")
	vp.Assert(id["S"] == types.StringLiteral("s") && pd["N"] == types.Name("x"), "non-reference objects changed")
	// patching sets of object numbers
	s := types.IntSet{r1: true}
	t := patchObjects(s, lookup)
	_, inSrc := lookup[r1]
	if inSrc {
		vp.Assert(len(t) == 1 && t[w1], "object number set not renumbered")
	} else {
		vp.Assert(len(t) == 0, "object number outside the source kept in a renumbered set")
	}
}

// ---- C33, merge half: appending a source page tree to a destination page tree --------------------

func verifPageDoc(first, pages int, rootAttrs [4]bool) (*model.Context, []int) {
	// objects: first = catalog, first+1 = page tree root, first+2.. = pages
	xt := &model.XRefTable{Table: map[int]*model.XRefTableEntry{}}
	ctx := &model.Context{Configuration: &model.Configuration{}, XRefTable: xt}
	zero, g0 := int64(0), types.FreeHeadGeneration
	xt.Table[0] = &model.XRefTableEntry{Free: true, Offset: &zero, Generation: &g0}
	put := func(nr int, o types.Object) {
		gen := 0
		xt.Table[nr] = &model.XRefTableEntry{Object: o, Generation: &gen}
	}
	rootRef := *types.NewIndirectRef(first+1, 0)
	var kids types.Array
	var leaves []int
	for i := 0; i < pages; i++ {
		nr := first + 2 + i
		put(nr, types.Dict{"Type": types.Name("Page"), "Parent": rootRef})
		kids = append(kids, *types.NewIndirectRef(nr, 0))
		leaves = append(leaves, nr)
	}
	root := types.Dict{"Type": types.Name("Pages"), "Kids": kids, "Count": types.Integer(pages)}
	for i, k := range []string{"Resources", "MediaBox", "CropBox", "Rotate"} {
		if rootAttrs[i] {
			root[k] = types.Integer(0)
		}
	}
	put(first+1, root)
	put(first, types.Dict{"Type": types.Name("Catalog"), "Pages": rootRef})
	cat := *types.NewIndirectRef(first, 0)
	xt.Root = &cat
	size := first + 2 + pages
	xt.Size = &size
	xt.PageCount = pages
	return ctx, leaves
}

// verifLeaves walks the page tree below ref and returns the page objects in order; it also checks every
// node's /Count and every kid's /Parent.
func verifLeaves(ctx *model.Context, ref types.IndirectRef, parent int, depth int, ok *bool) []int {
	if depth > 6 {
		*ok = false
		return nil
	}
	e, found := ctx.Table[ref.ObjectNumber.Value()]
	if !found || e.Object == nil {
		*ok = false
		return nil
	}
	d, isDict := e.Object.(types.Dict)
	if !isDict {
		*ok = false
		return nil
	}
	if parent != 0 {
		p := d.IndirectRefEntry("Parent")
		if p == nil || p.ObjectNumber.Value() != parent {
			*ok = false
		}
	}
	if t := d.NameEntry("Type"); t != nil && *t == "Page" {
		return []int{ref.ObjectNumber.Value()}
	}
	var out []int
	kids, _ := d["Kids"].(types.Array)
	for _, k := range kids {
		kr, isRef := k.(types.IndirectRef)
		if !isRef {
			*ok = false
			continue
		}
		out = append(out, verifLeaves(ctx, kr, ref.ObjectNumber.Value(), depth+1, ok)...)
	}
	if c := d.IntEntry("Count"); c == nil || *c != len(out) {
		*ok = false
	}
	return out
}

// VerifMergeAppendPageTree (C33): a source document of 1..P pages is appended to a destination of 1..P
// pages whose page tree root carries any subset of the inheritable attributes (which forces a new
// neutral root). Afterwards the catalog's /Pages tree must list the destination's pages followed by the
// source's pages, with consistent /Count and /Parent entries, and PageCount must be their sum; a second
// source appended after the first must land behind both.
func VerifMergeAppendPageTree() {
	var attrs [4]bool
	for i := range attrs {
		attrs[i] = vp.Bool()
	}
	m := vp.IntRange(1, vp.Bound("P"))
	n := vp.IntRange(1, vp.Bound("P"))
	dest, destLeaves := verifPageDoc(1, m, attrs)
	want := append([]int{}, destLeaves...)
	rounds := vp.IntRange(1, 2)
	for r := 0; r < rounds; r++ {
		var srcAttrs [4]bool
		srcAttrs[1] = vp.Bool()
		src, srcLeaves := verifPageDoc(*dest.Size, n, srcAttrs)
		if err := appendSourceObjectsToDest(src, dest); err != nil {
			return
		}
		if err := appendSourcePageTreeToDestPageTree(src, dest, false); err != nil {
			vp.Assert(false, "appending a well-formed source page tree failed: "+err.Error())
			return
		}
		want = append(want, srcLeaves...)
	}
	pages, err := dest.Pages()
	vp.Assert(err == nil && pages != nil, "catalog lost its /Pages entry")
	ok := true
	got := verifLeaves(dest, *pages, 0, 0, &ok)
	vp.Assert(ok, "merged page tree has inconsistent /Count, /Parent or /Kids entries")
	vp.Assert(len(got) == len(want), "merged page tree does not list all pages of destination and sources")
	for i := 0; i < len(got) && i < len(want); i++ {
		vp.Assert(got[i] == want[i], "merged page tree lists the pages in the wrong order")
	}
	vp.Assert(dest.PageCount == len(want), "PageCount is not the number of pages of destination and sources")
}
