package pdfcpu

import (
	"github.com/pdfcpu/pdfcpu/internal/zzverif/vp"
	"github.com/pdfcpu/pdfcpu/pkg/pdfcpu/types"
)

// VerifMergeRenumbering (C33, merge half, object renumbering): before a source document is merged into
// a destination its object numbers are moved behind the destination's (lookupTable) and every reference
// is patched (patchObject). For K symbolic distinct source object numbers and a symbolic destination
// size the table must be injective, land exactly on size..size+K-1 (no collision with a destination
// object, no gap), and patching a nested object must rewrite exactly the references to source objects -
// same generation, everything else untouched. Map iteration order is arbitrary (-maprotate).
func VerifMergeRenumbering() {
	k := vp.IntRange(1, vp.Bound("K"))
	keys := types.IntSet{}
	nrs := make([]int, k)
	for i := range nrs {
		nrs[i] = vp.IntIn(1, 99)
		for j := 0; j < i; j++ {
			vp.Assume(nrs[i] != nrs[j])
		}
		keys[nrs[i]] = true
	}
	size := vp.IntIn(1, 1000)
	lookup := lookupTable(keys, size)
	vp.Assert(len(lookup) == k, "renumbering table does not have one entry per source object")
	used := make([]bool, k)
	for i := range nrs {
		v, ok := lookup[nrs[i]]
		vp.Assert(ok, "a source object has no new number")
		vp.Assert(v >= size && v < size+k, "a new object number collides with the destination's numbers or leaves a gap")
		if v >= size && v < size+k {
			vp.Assert(!used[v-size], "two source objects get the same new number")
			used[v-size] = true
		}
	}
	// patching
	r1, g1 := vp.IntIn(1, 99), vp.IntIn(0, 9)
	r2 := vp.IntIn(1, 99)
	want := func(n int) int {
		for i := range nrs {
			if nrs[i] == n {
				return lookup[nrs[i]]
			}
		}
		return n
	}
	w1, w2 := want(r1), want(r2)
	inner := types.Dict{"R": *types.NewIndirectRef(r2, 0), "S": types.StringLiteral("s")}
	d := types.Dict{
		"A": types.Array{*types.NewIndirectRef(r1, g1), types.Integer(r1), inner},
		"N": types.Name("x"),
	}
	out := patchObject(d, lookup)
	pd, ok := out.(types.Dict)
	vp.Assert(ok, "patched dictionary is not a dictionary")
	a, _ := pd["A"].(types.Array)
	vp.Assert(len(a) == 3, "patched array changed length")
	ir, ok := a[0].(types.IndirectRef)
	vp.Assert(ok && ir.ObjectNumber.Value() == w1 && ir.GenerationNumber.Value() == g1, "reference in an array not renumbered correctly")
	vp.Assert(a[1] == types.Integer(r1), "an integer that equals an object number was rewritten")
	id, _ := a[2].(types.Dict)
	ir2, ok := id["R"].(types.IndirectRef)
	vp.Assert(ok && ir2.ObjectNumber.Value() == w2 && ir2.GenerationNumber.Value() == 0, "reference in a nested dictionary not renumbered correctly")
	vp.Assert(id["S"] == types.StringLiteral("s") && pd["N"] == types.Name("x"), "non-reference objects changed")
	// patching sets of object numbers
	s := types.IntSet{r1: true}
	t := patchObjects(s, lookup)
	_, inSrc := lookup[r1]
	if inSrc {
		vp.Assert(len(t) == 1 && t[w1], "object number set not renumbered")
	} else {
		vp.Assert(len(t) == 0, "object number outside the source kept in a renumbered set")
	}
}
