package pdfcpu

import (
	"github.com/pdfcpu/pdfcpu/internal/zzverif/vp"
	"github.com/pdfcpu/pdfcpu/pkg/pdfcpu/model"
	"github.com/pdfcpu/pdfcpu/pkg/pdfcpu/types"
)

// ---- C25, "after a change only the new password works": the decision kernel of updateEncryption ----
// The O/U (OE/UE) entries are derived from ctx.UserPW / ctx.OwnerPW by o(), u() and calcOAndU(); these
// are replaced by recorders of the passwords they are called with.

var verifDerivedUser, verifDerivedOwner []string

func verifRecO(ctx *model.Context) ([]byte, error) {
	verifDerivedOwner = append(verifDerivedOwner, ctx.OwnerPW)
	verifDerivedUser = append(verifDerivedUser, ctx.UserPW) // O depends on both
	return []byte{1}, nil
}

func verifRecU(ctx *model.Context) ([]byte, []byte, error) {
	verifDerivedUser = append(verifDerivedUser, ctx.UserPW)
	return []byte{2}, []byte{3}, nil
}

func verifRecOAndU(ctx *model.Context, d types.Dict) error {
	verifDerivedUser = append(verifDerivedUser, ctx.UserPW)
	verifDerivedOwner = append(verifDerivedOwner, ctx.OwnerPW)
	return nil
}

func verifRecWritePerms(ctx *model.Context, d types.Dict) error { return nil }

func verifStrEq(a, b string) bool {
	if len(a) != len(b) {
		return false
	}
	same := true
	for i := 0; i < len(a); i++ {
		same = vp.And(same, a[i] == b[i])
	}
	return same
}

// VerifPasswordChange (C25): updateEncryption for every revision 2..6, current passwords and requested
// changes (no change, or a new user / owner password of 0..1 symbolic bytes - the EMPTY new password
// included): every derivation of the password entries uses the new password where one was requested and
// the current one otherwise, and the context afterwards carries them.
//
//verif:stub github.com/pdfcpu/pdfcpu/pkg/pdfcpu.o=verifRecO
//verif:stub github.com/pdfcpu/pdfcpu/pkg/pdfcpu.u=verifRecU
//verif:stub github.com/pdfcpu/pdfcpu/pkg/pdfcpu.calcOAndU=verifRecOAndU
//verif:stub github.com/pdfcpu/pdfcpu/pkg/pdfcpu.writePermissions=verifRecWritePerms
func VerifPasswordChange() {
	r := vp.IntRange(2, 6)
	cmd := []model.CommandMode{model.CHANGEUPW, model.CHANGEOPW, model.SETPERMISSIONS}[vp.Choice(3)]
	oldU := "u" + vp.String(vp.IntRange(0, 1))
	oldO := "o" + vp.String(vp.IntRange(0, 1))
	ctx := verifNewContext(cmd, oldU, oldO, -1, r)
	var newU, newO *string
	if vp.Bool() {
		s := vp.String(vp.IntRange(0, 1))
		newU = &s
	}
	if vp.Bool() {
		s := vp.String(vp.IntRange(0, 1))
		newO = &s
	}
	ctx.UserPWNew, ctx.OwnerPWNew = newU, newO
	encRef := *types.NewIndirectRef(5, 0)
	ctx.Encrypt = &encRef
	gen := 0
	ctx.Table = map[int]*model.XRefTableEntry{5: {Object: types.Dict{"Filter": types.Name("Standard")}, Generation: &gen}}
	verifDerivedUser, verifDerivedOwner = nil, nil
	if err := updateEncryption(ctx); err != nil {
		return
	}
	wantU, wantO := oldU, oldO
	if newU != nil {
		wantU = *newU
	}
	if newO != nil {
		wantO = *newO
	}
	vp.Assert(len(verifDerivedUser) > 0 && len(verifDerivedOwner) > 0, "the password entries were not recomputed")
	for _, s := range verifDerivedUser {
		vp.Assert(verifStrEq(s, wantU), "a password entry was derived from a user password other than the one requested (a requested change did not take effect, or one happened unasked)")
	}
	for _, s := range verifDerivedOwner {
		vp.Assert(verifStrEq(s, wantO), "a password entry was derived from an owner password other than the one requested (a requested change did not take effect, or one happened unasked)")
	}
	vp.Assert(verifStrEq(ctx.UserPW, wantU) && verifStrEq(ctx.OwnerPW, wantO), "the context does not carry the passwords the document now has")
}
