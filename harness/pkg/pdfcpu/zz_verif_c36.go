package pdfcpu

import (
	"errors"

	"github.com/pdfcpu/pdfcpu/internal/zzverif/vp"
	"github.com/pdfcpu/pdfcpu/pkg/pdfcpu/model"
	"github.com/pdfcpu/pdfcpu/pkg/pdfcpu/types"
)

var verifDestPages map[int]int

// verifStubPageNr stands in for PageNrFromDestination (page tree lookup): the destination of outline
// item k is the integer k; its page number is the symbolic value drawn for that item.
func verifStubPageNr(ctx *model.Context, dest types.Object) (int, error) {
	if i, ok := dest.(types.Integer); ok {
		return verifDestPages[int(i)], nil
	}
	return 0, errors.New("unexpected destination")
}

// VerifBookmarkTraversal (C36, "reading bookmarks terminates on any outline, including cyclic ones"):
// an arbitrary outline graph over N items - every item's /Next and /First is absent or refers to any
// item (symbolic object numbers: chains, trees, self references, cycles through First and/or Next, shared
// kids), symbolic target pages, optional empty titles - is read by BookmarksForOutlineItem. The reader
// must return (the engine's unwinding bound and call depth turn non-termination into a violation),
// with ErrCircularBookmarks exactly when an item is reachable twice, and otherwise with a finite tree
// that lists every reachable titled item once, in Next order, with PageThru as documented.
//
//verif:stub github.com/pdfcpu/pdfcpu/pkg/pdfcpu.PageNrFromDestination=verifStubPageNr
func VerifBookmarkTraversal() {
	n := vp.Bound("ITEMS")
	xt := &model.XRefTable{Table: map[int]*model.XRefTableEntry{}, Conf: &model.Configuration{}}
	ctx := &model.Context{Configuration: xt.Conf, XRefTable: xt}
	next := make([]int, n+1)
	first := make([]int, n+1)
	titled := make([]bool, n+1)
	verifDestPages = map[int]int{}
	for k := 1; k <= n; k++ {
		d := types.Dict{"Dest": types.Integer(k)}
		titled[k] = vp.Bool()
		if titled[k] {
			d["Title"] = types.StringLiteral("T")
		} else {
			d["Title"] = types.StringLiteral("")
		}
		next[k] = vp.IntIn(0, n)
		first[k] = vp.IntIn(0, n)
		if next[k] != 0 {
			d["Next"] = *types.NewIndirectRef(next[k], 0)
		}
		if first[k] != 0 {
			d["First"] = *types.NewIndirectRef(first[k], 0)
		}
		verifDestPages[k] = vp.IntIn(1, 9)
		gen := 0
		xt.Table[k] = &model.XRefTableEntry{Object: d, Generation: &gen}
	}
	start := *types.NewIndirectRef(1, 0)
	bms, err := BookmarksForOutlineItem(ctx, &start, nil)
	// reference walk (explicit stack, visit counter): is any item reached twice?
	reached := make([]int, n+1)
	twice := false
	var walk func(k, depth int)
	walk = func(k, depth int) {
		for ; k != 0 && !twice && depth <= 2*n+2; k = next[k] {
			reached[k]++
			if reached[k] > 1 {
				twice = true
				return
			}
			if titled[k] && first[k] != 0 {
				walk(first[k], depth+1)
			}
		}
	}
	walk(1, 0)
	if err != nil {
		vp.Assert(errors.Is(err, ErrCircularBookmarks), "reading an outline failed with an error other than ErrCircularBookmarks")
		vp.Assert(twice, "ErrCircularBookmarks reported for an outline in which no item is reachable twice")
		return
	}
	vp.Assert(!twice, "an outline in which an item is reachable twice was read without ErrCircularBookmarks")
	// the top level lists the titled items of the Next chain from item 1, in order, with PageThru set
	k := 1
	for i := range bms {
		for k != 0 && !titled[k] {
			k = next[k]
		}
		vp.Assert(k != 0, "more bookmarks than titled outline items")
		if k == 0 {
			return
		}
		vp.Assert(bms[i].PageFrom == verifDestPages[k], "bookmark does not carry its item's target page")
		if i+1 < len(bms) {
			nf := bms[i+1].PageFrom
			if nf > bms[i].PageFrom {
				vp.Assert(bms[i].PageThru == nf-1, "PageThru is not the page before the next bookmark")
			} else {
				vp.Assert(bms[i].PageThru == bms[i].PageFrom, "PageThru is not PageFrom although the next bookmark does not start later")
			}
		}
		vp.Assert((len(bms[i].Kids) > 0) == (first[k] != 0 && verifHasTitled(first[k], next, titled, n)), "bookmark kids do not match the item's /First chain")
		k = next[k]
	}
	for k != 0 && !titled[k] {
		k = next[k]
	}
	vp.Assert(k == 0, "a titled outline item of the top level chain is missing from the bookmarks")
}

func verifHasTitled(k int, next []int, titled []bool, n int) bool {
	for steps := 0; k != 0 && steps <= n; steps++ {
		if titled[k] {
			return true
		}
		k = next[k]
	}
	return false
}
