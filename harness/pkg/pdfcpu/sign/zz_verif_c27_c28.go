package sign

import (
	"bytes"

	"github.com/pdfcpu/pdfcpu/internal/zzverif/vp"
	"github.com/pdfcpu/pdfcpu/pkg/pdfcpu/types"
)

func verifSigDict(a, b, c, d int, contents string) types.Dict {
	return types.Dict{
		"ByteRange": types.Array{types.Integer(a), types.Integer(b), types.Integer(c), types.Integer(d)},
		"Contents":  types.HexLiteral(contents),
	}
}

func verifIsWS(b byte) bool {
	return b == ' ' || b == '\t' || b == '\n' || b == '\f' || b == '\r'
}

func verifUpper(b byte) byte {
	if b >= 'a' && b <= 'f' {
		return b - 32
	}
	return b
}

// verifGapIsContents: gap == '<' hex '>' where hex equals contents up to hex-digit case and white space.
func verifGapIsContents(gap []byte, contents string) bool {
	if len(gap) < 2 || gap[0] != '<' || gap[len(gap)-1] != '>' {
		return false
	}
	var stripped []byte
	for _, b := range gap[1 : len(gap)-1] {
		if vp.Fork(verifIsWS(b)) {
			continue
		}
		stripped = append(stripped, b)
	}
	if len(stripped) != len(contents) {
		return false
	}
	ok := true
	for i := range stripped {
		ok = vp.And(ok, verifUpper(stripped[i]) == verifUpper(contents[i]))
	}
	return ok
}

// VerifSignedDataCoverage (C28 kernel, C27 kernel): for an arbitrary file of N bytes, arbitrary
// /ByteRange integers (full 64-bit range) and an arbitrary /Contents hex string of <= H bytes:
// whenever signedData accepts, the ranges start at 0, do not overlap, stay inside the file, the excluded
// gap is exactly the '<...>' hex string of /Contents, and the returned bytes are exactly the two ranges.
func VerifSignedDataCoverage() {
	n := vp.IntRange(0, vp.Bound("N"))
	file := vp.Bytes(n)
	a, b, c, d := vp.Int(), vp.Int(), vp.Int(), vp.Int()
	h := vp.IntRange(0, vp.Bound("H"))
	contents := vp.String(h)
	// Range lengths far beyond the file only differ in how long the (failing) read is; they are bounded
	// here to file length + 2 to keep buffer sizes concrete. Offsets and the arithmetic on full 64-bit
	// values (overflow of off+size, total size) are covered by VerifByteRangeArithmetic.
	vp.Assume(b <= n+2 && c <= n+2 && d <= n+2)
	data, err := signedData(bytes.NewReader(file), verifSigDict(a, b, c, d, contents))
	if err != nil {
		return
	}
	vp.Assert(a == 0, "accepted a byte range that does not start at offset 0")
	vp.Assert(b >= 0 && c >= b && d >= 0, "accepted negative or overlapping ranges")
	vp.Assert(c <= n && d <= n-c, "accepted ranges that reach beyond the file")
	bb, cc, dd := vp.Concretize(b), vp.Concretize(c), vp.Concretize(d)
	vp.Assert(verifGapIsContents(file[bb:cc], contents), "the excluded gap is not exactly the /Contents hex string")
	vp.Assert(len(data) == bb+dd, "signed data has the wrong length")
	for i := 0; i < bb; i++ {
		vp.Assert(data[i] == file[i], "signed data differs from the first byte range")
	}
	for i := 0; i < dd; i++ {
		vp.Assert(data[bb+i] == file[cc+i], "signed data differs from the second byte range")
	}
}

// VerifSignedDataInjective (C27 kernel): two files of the same length with the same /ByteRange and
// /Contents whose signed data is equal agree on every covered byte, i.e. the digest input is an
// injective function of the covered bytes (a changed covered byte changes the digest input).
func VerifSignedDataInjective() {
	n := vp.IntRange(0, vp.Bound("N"))
	f1, f2 := vp.Bytes(n), vp.Bytes(n)
	a, b, c, d := vp.Int(), vp.Int(), vp.Int(), vp.Int()
	h := vp.IntRange(0, vp.Bound("H"))
	contents := vp.String(h)
	vp.Assume(b <= n+2 && c <= n+2 && d <= n+2)
	d1, err1 := signedData(bytes.NewReader(f1), verifSigDict(a, b, c, d, contents))
	d2, err2 := signedData(bytes.NewReader(f2), verifSigDict(a, b, c, d, contents))
	if err1 != nil || err2 != nil {
		return
	}
	vp.Assert(len(d1) == len(d2), "same ranges, different signed data length")
	same := true
	for i := range d1 {
		same = vp.And(same, d1[i] == d2[i])
	}
	vp.Assume(same)
	bb, cc, dd := vp.Concretize(b), vp.Concretize(c), vp.Concretize(d)
	for i := 0; i < bb; i++ {
		vp.Assert(f1[i] == f2[i], "files with equal signed data differ in a covered byte (first range)")
	}
	for i := 0; i < dd; i++ {
		vp.Assert(f1[cc+i] == f2[cc+i], "files with equal signed data differ in a covered byte (second range)")
	}
}

// VerifByteRangeArithmetic: validateByteRange on the full 2^256 space of four int64 values: acceptance
// implies a == 0, no overlap, and that neither end offset nor the total length overflows; the returned
// total is the mathematical b + d.
func VerifByteRangeArithmetic() {
	a, b, c, d := vp.Int64(), vp.Int64(), vp.Int64(), vp.Int64()
	vp.Assume(a >= 0 && b >= 0 && c >= 0 && d >= 0) // byteRangeValues rejects negative entries (see coverage harness)
	total, err := validateByteRange([4]int64{a, b, c, d})
	if err != nil {
		return
	}
	vp.Assert(a == 0, "range not starting at 0 accepted")
	vp.Assert(b <= c, "overlapping ranges accepted")
	vp.Assert(uint64(c)+uint64(d) <= 1<<63-1, "end offset of the second range overflows int64")
	vp.Assert(uint64(b)+uint64(d) <= 1<<63-1, "total length overflows")
	vp.Assert(uint64(total) == uint64(b)+uint64(d), "total length is not b+d")
}
