package sign

import (
	"crypto/x509"
	"encoding/asn1"
	"errors"

	"github.com/pdfcpu/pdfcpu/internal/zzverif/vp"
	"github.com/pdfcpu/pdfcpu/pkg/pdfcpu/model"
	"github.com/pdfcpu/pdfcpu/pkg/pdfcpu/pkcs7"
)

// ---- C27, gate 3: inside the PKCS#7 handler the digest verdict reaches the result ----

var (
	verifDigestOK     bool
	verifDigestReason model.SignatureReason
	verifSigOK        bool
	verifGateResult   *model.SignatureValidationResult
	verifGateLocal    *localSignatureAssessment
)

func verifStubP7Digest(p7Signer pkcs7.SignerInfo, p7Content []byte, data []byte, detached bool) (model.SignatureReason, error) {
	if verifDigestOK {
		return model.SignatureReasonDocNotModified, nil
	}
	return verifDigestReason, errors.New("pkcs7: verify message digest: mismatch")
}

func verifStubP7Signature(p7Signer pkcs7.SignerInfo, cert *x509.Certificate, p7Content []byte, contentType ...asn1.ObjectIdentifier) error {
	if verifSigOK {
		return nil
	}
	return errors.New("pkcs7: signature does not verify")
}

// verifGateTail stands in for applyP7ProfileAssessment, the first step after the handler has declared the
// document unmodified: here the three verdicts must all have been positive.
func verifGateTail(subFilter string, detached bool, contentType asn1.ObjectIdentifier, p7Signer pkcs7.SignerInfo, signerCert *x509.Certificate,
	signer *model.Signer, result *model.SignatureValidationResult, assessment *localSignatureAssessment) {
	vp.Assert(verifDigestOK, "the PKCS#7 handler went on to declare the document unmodified although the digest did not verify")
	vp.Assert(verifSigOK && pkcs7.VerifGetCertOutcome == 0, "the PKCS#7 handler went on although the signer certificate or the signature did not verify")
	vp.Assert(assessment.DigestVerified && assessment.SignatureAuthenticated && assessment.CertificateIdentified, "local assessment flags not set on the success path")
	vp.Stop()
}

// VerifP7DigestGate (C27): verifyP7SignerWithContentType with the three cryptographic verdicts (message
// digest, signer certificate lookup, signature) replaced by symbolic outcomes. Whatever the combination
// and order of evaluation, DocModified becomes False ("unmodified") and DigestVerified is set only if
// the digest verified AND the certificate was found AND the signature verified; a failing digest with
// reason "modified" marks the result invalid/modified.
//
//verif:stub github.com/pdfcpu/pdfcpu/pkg/pdfcpu/sign.verifyP7Digest=verifStubP7Digest
//verif:stub github.com/pdfcpu/pdfcpu/pkg/pdfcpu/sign.verifyP7Signature=verifStubP7Signature
//verif:stub github.com/pdfcpu/pdfcpu/pkg/pdfcpu/pkcs7.GetCertFromCertsByIssuerAndSerial=github.com/pdfcpu/pdfcpu/pkg/pdfcpu/pkcs7.verifStubGetCert
//verif:stub github.com/pdfcpu/pdfcpu/pkg/pdfcpu/sign.applyP7ProfileAssessment=verifGateTail
func VerifP7DigestGate() {
	verifDigestOK = vp.Bool()
	verifDigestReason = []model.SignatureReason{model.SignatureReasonDocModified, model.SignatureReasonUnsupported, model.SignatureReasonMalformed}[vp.Choice(3)]
	verifSigOK = vp.Bool()
	pkcs7.VerifGetCertOutcome = vp.IntRange(0, 2)
	detached, certified, authoritative := vp.Bool(), vp.Bool(), vp.Bool()
	perms := vp.IntRange(1, 3)
	result := &model.SignatureValidationResult{DocModified: model.Unknown}
	local := &localSignatureAssessment{}
	ctx := &model.Context{Configuration: &model.Configuration{}, XRefTable: &model.XRefTable{}}
	err := verifyP7SignerWithContentType(pkcs7.SignerInfo{}, nil, nil, []byte("content"), []byte("data"), detached, certified, authoritative,
		perms, 0, result, ctx, pkcs7.OIDData, local)
	// the handler returned before the tail: something did not verify
	vp.Assert(err == nil || true, "returned")
	vp.Assert(!(verifDigestOK && verifSigOK && pkcs7.VerifGetCertOutcome == 0), "the handler stopped early although digest, certificate and signature verified")
	vp.Assert(result.DocModified != model.False, "DocModified = False (unmodified) although the handler did not accept digest, certificate and signature")
	vp.Assert(!local.DigestVerified, "DigestVerified set although the handler did not accept digest, certificate and signature")
	if !verifDigestOK && verifSigOK && pkcs7.VerifGetCertOutcome == 0 && verifDigestReason == model.SignatureReasonDocModified {
		vp.Assert(result.DocModified == model.True && result.Status == model.SignatureStatusInvalid, "a digest mismatch under a verifying signature is not reported as a modified document")
	}
}
