package sign

import (
	"context"
	"net"
	"net/http"
	"net/url"

	"github.com/pdfcpu/pdfcpu/internal/zzverif/vp"
)

// ---- independent address classification on the raw bytes (the property's list) ----

func verifBlocked4(a, b, c, d byte) bool {
	loopback := a == 127
	private := a == 10 || (a == 172 && b&0xf0 == 16) || (a == 192 && b == 168)
	linkLocal := a == 169 && b == 254
	multicast := a&0xf0 == 224 // includes link-local multicast 224.0.0.0/24
	unspecified := a == 0 && b == 0 && c == 0 && d == 0
	return loopback || private || linkLocal || multicast || unspecified
}

func verifBlocked(ip []byte) bool {
	if len(ip) == 4 {
		return verifBlocked4(ip[0], ip[1], ip[2], ip[3])
	}
	mapped := ip[10] == 0xff && ip[11] == 0xff
	allZero := true
	for i := 0; i < 16; i++ {
		if i < 10 {
			mapped = vp.And(mapped, ip[i] == 0)
		}
		if i < 15 {
			allZero = vp.And(allZero, ip[i] == 0)
		}
	}
	if vp.Fork(mapped) {
		return verifBlocked4(ip[12], ip[13], ip[14], ip[15])
	}
	loopback := vp.And(allZero, ip[15] == 1)
	unspecified := vp.And(allZero, ip[15] == 0)
	private := ip[0]&0xfe == 0xfc            // fc00::/7
	linkLocal := ip[0] == 0xfe && ip[1]&0xc0 == 0x80 // fe80::/10
	multicast := ip[0] == 0xff               // ff00::/8 incl. link-local multicast
	return loopback || unspecified || private || linkLocal || multicast
}

type verifResolver struct{ answers []net.IPAddr }

func (r verifResolver) LookupIPAddr(context.Context, string) ([]net.IPAddr, error) {
	return r.answers, nil
}

func verifIPString(ip net.IP) string { return "ip" }

//verif:stub (net.IP).String=verifIPString
// VerifRevocationDial: for 1..K DNS answers, each an arbitrary 4- or 16-byte address (IPv4-mapped IPv6
// included), and hosts that are / are not allow-listed: a connection is opened only if the host is
// allow-listed or EVERY answer is outside loopback / private / link-local / multicast / unspecified.
func VerifRevocationDial() {
	k := vp.IntRange(1, vp.Bound("K"))
	var answers []net.IPAddr
	raw := make([][]byte, k)
	for i := 0; i < k; i++ {
		n := []int{4, 16}[vp.Choice(2)]
		raw[i] = vp.Bytes(n)
		ip := make(net.IP, n)
		copy(ip, raw[i])
		answers = append(answers, net.IPAddr{IP: ip})
	}
	allowed := allowedRevocationHostSet([]string{"Ocsp.Allowed.Example."})
	host := []string{"evil.test", "ocsp.allowed.example", "OCSP.ALLOWED.EXAMPLE.", " ocsp.allowed.example", "ocsp.allowed.example.evil.test"}[vp.Choice(5)]
	hostAllowed := host == "ocsp.allowed.example" || host == "OCSP.ALLOWED.EXAMPLE." || host == " ocsp.allowed.example"
	dialled := false
	dial := func(ctx context.Context, network, addr string) (net.Conn, error) {
		dialled = true
		return nil, nil
	}
	// hosts that are IP literals: a real resolver answers with exactly that address
	if lit := vp.Choice(5); lit > 0 {
		host = []string{"", "127.0.0.1", "::1", "10.1.2.3", "93.184.216.34"}[lit]
		hostAllowed = false
		ip := net.ParseIP(host)
		if ip4 := ip.To4(); ip4 != nil {
			ip = ip4
		}
		answers = []net.IPAddr{{IP: ip}}
		raw = [][]byte{[]byte(ip)}
	}
	fn := revocationDialContext(verifResolver{answers}, dial, allowed)
	_, err := fn(context.Background(), "tcp", net.JoinHostPort(host, "80"))
	anyBlocked := false
	for i := range raw {
		anyBlocked = vp.Or(anyBlocked, verifBlocked(raw[i]))
	}
	if dialled {
		vp.Assert(vp.Or(hostAllowed, !anyBlocked), "a connection was opened to a loopback/private/link-local/multicast/unspecified address of a host that is not allow-listed")
	}
	if !hostAllowed {
		vp.Assert(anyBlocked == (err != nil), "DNS answer set and outcome disagree (public answers rejected, or blocked answers accepted)")
	} else {
		vp.Assert(err == nil && dialled, "allow-listed host was not dialled")
	}
}

func verifRedacted(u *url.URL) string { return "redacted" }

//verif:stub (*net/url.URL).Redacted=verifRedacted
// VerifRevocationURL: a URL is accepted exactly when its scheme is http or https, it has no userinfo
// and a non-empty host; redirects obey the same rule and stop after 10 hops.
func VerifRevocationURL() {
	sl := vp.IntRange(0, 5)
	scheme := vp.String(sl)
	var user *url.Userinfo
	if vp.Bool() {
		user = url.User("u")
	}
	host := []string{"", "a", "a:80", ":80", "[::1]:80"}[vp.Choice(5)]
	u := &url.URL{Scheme: scheme, User: user, Host: host}
	want := (scheme == "http" || scheme == "https") && user == nil && host != "" && host != ":80"
	err := validateRevocationURL(u)
	vp.Assert((err == nil) == want, "URL acceptance differs from: scheme http/https, no credentials, non-empty host")
	hops := vp.IntRange(0, 11)
	via := make([]*http.Request, hops)
	rerr := revocationRedirect(&http.Request{URL: u}, via)
	vp.Assert((rerr == nil) == (want && hops < 10), "redirect acceptance differs from the URL rule with a limit of 10 hops")
	vp.Assert(validateRevocationURL(nil) != nil, "nil URL accepted")
}

// VerifRevocationClientNoProxy: the HTTP client used for revocation checks has no proxy, uses the
// guarded dialer and checks redirects.
func VerifRevocationClientNoProxy() {
	c := revocationHTTPClient(0, nil)
	tr, ok := c.Transport.(*http.Transport)
	vp.Assert(ok, "revocation client does not use an http.Transport")
	vp.Assert(tr.Proxy == nil, "revocation client honours a proxy")
	vp.Assert(tr.DialContext != nil, "revocation client has no guarded dialer")
	vp.Assert(c.CheckRedirect != nil, "revocation client does not check redirects")
}
