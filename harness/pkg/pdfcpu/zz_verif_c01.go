package pdfcpu

import (
	"errors"
	"os"
	"sort"

	"github.com/pdfcpu/pdfcpu/internal/zzverif/vp"
	"github.com/pdfcpu/pdfcpu/pkg/pdfcpu/model"
)

var verifPrepareOutcome int

func verifStubPrepare(ctx *model.Context) error {
	// something has usually been written when a later phase fails
	ctx.Write.Writer.WriteString("%PDF-partial")
	ctx.Write.Writer.Flush()
	if verifPrepareOutcome == 1 {
		panic("writer panicked")
	}
	return errors.New("writer failed")
}

func verifNames(dir string) []string {
	ents, err := os.ReadDir(dir)
	if err != nil {
		vp.Unsupported("readdir failed")
	}
	var names []string
	for _, e := range ents {
		names = append(names, e.Name())
	}
	sort.Strings(names)
	return names
}

//verif:stub github.com/pdfcpu/pdfcpu/pkg/pdfcpu.prepareContextForWriting=verifStubPrepare
// VerifWriteContextAbort (C01): WriteContext creates the output file itself (hidden staging file, renamed
// on success). If writing fails or panics, a pre-existing output must be unchanged, a new output must not
// appear and no staging file may remain.
func VerifWriteContextAbort() {
	dir, err := os.MkdirTemp("", "verifwc")
	if err != nil {
		vp.Unsupported("mkdirtemp failed")
	}
	out := dir + "/out.pdf"
	existed := vp.Choice(2) == 1
	if existed {
		if os.WriteFile(out, []byte("OLD-OUTPUT"), 0o600) != nil || os.Chmod(out, 0o640) != nil {
			vp.Unsupported("setup failed")
		}
	}
	before := verifNames(dir)
	verifPrepareOutcome = vp.Choice(2)
	ctx := &model.Context{Configuration: &model.Configuration{}, XRefTable: &model.XRefTable{}, Write: &model.WriteContext{DirName: dir, FileName: "out.pdf"}}
	var werr error
	panicked := false
	func() {
		defer func() {
			if r := recover(); r != nil {
				if s, ok := r.(string); ok && s == "writer panicked" {
					panicked = true
					return
				}
				panic(r)
			}
		}()
		werr = WriteContext(ctx)
	}()
	vp.Assert(werr != nil || panicked, "WriteContext reported success although writing failed")
	if existed {
		b, rerr := os.ReadFile(out)
		vp.Assert(rerr == nil && string(b) == "OLD-OUTPUT", "aborted write modified a pre-existing output file")
		fi, serr := os.Stat(out)
		vp.Assert(serr == nil && fi.Mode().Perm() == 0o640, "aborted write changed the mode of a pre-existing output file")
	} else {
		_, serr := os.Stat(out)
		vp.Assert(errors.Is(serr, os.ErrNotExist), "aborted write left a new output file behind")
	}
	after := verifNames(dir)
	vp.Assert(len(after) == len(before), "aborted write left staging files behind")
	if !vp.Symbolic() {
		os.RemoveAll(dir)
	}
}
