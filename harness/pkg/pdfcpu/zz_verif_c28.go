package pdfcpu

import (
	"github.com/pdfcpu/pdfcpu/internal/zzverif/vp"
	"github.com/pdfcpu/pdfcpu/pkg/pdfcpu/model"
	"github.com/pdfcpu/pdfcpu/pkg/pdfcpu/types"
)

// VerifRevisionBoundary (C28): the gate in front of every signature handler. For arbitrary /ByteRange
// offset+length (full 64-bit), file size, increment number and signature kind: the handler is reached for a
// signature of the current revision only if its second range ends exactly at the end of the file; and a
// signature of an earlier revision (increment > 0, not a document timestamp) is never left "unmodified".
func VerifRevisionBoundary() {
	c, d := vp.Int(), vp.Int()
	fileSize := vp.Int64()
	increment := vp.IntIn(0, 3)
	dts := vp.Bool()
	sigDict := types.Dict{"ByteRange": types.Array{types.Integer(0), types.Integer(vp.Int()), types.Integer(c), types.Integer(d)}}
	ctx := &model.Context{Read: &model.ReadContext{FileSize: fileSize}}
	result := &model.SignatureValidationResult{DocModified: model.Unknown}
	proceed := recordSignedRevisionBoundaryEvidence(sigDict, ctx, increment, dts, result)
	wellFormed := c >= 0 && d >= 0 && uint64(c)+uint64(d) <= 1<<63-1 && fileSize >= 0
	current := increment == 0 || dts
	if proceed && wellFormed && current {
		vp.Assert(int64(c)+int64(d) == fileSize, "handler reached although the signed revision does not end at the end of the file (appended bytes or a later increment)")
	}
	if !proceed {
		vp.Assert(result.DocModified != model.False, "boundary mismatch left the document marked unmodified")
	}
	// the handler may have concluded "unmodified"; historical revisions must not keep that verdict
	sigType := model.SigTypeDTS
	if !dts {
		sigType = vp.Choice(3) // the non-DTS signature types
		vp.Assume(sigType != model.SigTypeDTS)
	}
	if vp.Bool() {
		result.DocModified = model.False
		result.Reason = model.SignatureReasonDocNotModified
	}
	applyHistoricalRevisionReporting(increment, sigType, result)
	if increment > 0 && sigType != model.SigTypeDTS {
		vp.Assert(result.DocModified != model.False, "a signature of an earlier revision is reported as covering the unmodified document")
	}
}
