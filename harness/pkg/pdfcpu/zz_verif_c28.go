package pdfcpu

import (
	"crypto/x509"
	"io"

	"github.com/pdfcpu/pdfcpu/internal/zzverif/vp"
	"github.com/pdfcpu/pdfcpu/pkg/pdfcpu/model"
	"github.com/pdfcpu/pdfcpu/pkg/pdfcpu/types"
)

// VerifRevisionBoundary (C28): the gate in front of every signature handler. For arbitrary /ByteRange
// offset+length (full 64-bit), file size, increment number and signature kind: the handler is reached for a
// signature of the current revision only if its second range ends exactly at the end of the file; and a
// signature of an earlier revision (increment > 0, not a document timestamp) is never left "unmodified".
func VerifRevisionBoundary() {
	c, d := vp.Int(), vp.Int()
	fileSize := vp.Int64()
	increment := vp.IntIn(0, 3)
	dts := vp.Bool()
	sigDict := types.Dict{"ByteRange": types.Array{types.Integer(0), types.Integer(vp.Int()), types.Integer(c), types.Integer(d)}}
	ctx := &model.Context{Read: &model.ReadContext{FileSize: fileSize}}
	result := &model.SignatureValidationResult{DocModified: model.Unknown}
	proceed := recordSignedRevisionBoundaryEvidence(sigDict, ctx, increment, dts, result)
	wellFormed := c >= 0 && d >= 0 && uint64(c)+uint64(d) <= 1<<63-1 && fileSize >= 0
	current := increment == 0 || dts
	if proceed && wellFormed && current {
		vp.Assert(int64(c)+int64(d) == fileSize, "handler reached although the signed revision does not end at the end of the file (appended bytes or a later increment)")
	}
	if !proceed {
		vp.Assert(result.DocModified != model.False, "boundary mismatch left the document marked unmodified")
	}
	// the handler may have concluded "unmodified"; historical revisions must not keep that verdict
	sigType := model.SigTypeDTS
	if !dts {
		sigType = vp.Choice(3) // the non-DTS signature types
		vp.Assume(sigType != model.SigTypeDTS)
	}
	if vp.Bool() {
		result.DocModified = model.False
		result.Reason = model.SignatureReasonDocNotModified
	}
	applyHistoricalRevisionReporting(increment, sigType, result)
	if increment > 0 && sigType != model.SigTypeDTS {
		vp.Assert(result.DocModified != model.False, "a signature of an earlier revision is reported as covering the unmodified document")
	}
}

// ---- the same gate at the caller: validateSignature ----

func verifStubSigHandler(ra io.ReaderAt, sigDict types.Dict, certified, authoritative, all bool, perms int, pool *x509.CertPool,
	result *model.SignatureValidationResult, ctx *model.Context) error {
	// the cryptographic verification succeeds: the handler declares the covered bytes unmodified
	if result.DocModified == model.Unknown {
		result.DocModified = model.False
	}
	result.Reason = model.SignatureReasonDocNotModified
	return nil
}

func verifStubSubFilter(sigDict types.Dict, usageRights bool, result *model.SignatureValidationResult) (string, signatureValidationHandler, bool) {
	n, _ := sigDict["SubFilter"].(types.Name)
	return string(n), verifStubSigHandler, true
}

func verifStubDetectPerms(sigDict types.Dict, ctx *model.Context, result *model.SignatureValidationResult) (int, error) {
	return 0, nil
}

func verifStubSigDetails(sigDict types.Dict, ctx *model.Context, result *model.SignatureValidationResult) {}

func verifStubCertPool() *x509.CertPool { return nil }

// VerifSignatureRevisionGate (C28): validateSignature with the cryptographic handler replaced by one that
// always succeeds ("covered bytes unmodified"). For every signature type, sub-filter, increment number,
// /ByteRange (full 64-bit) and file size, the verdict "document unmodified" survives only if the signed
// revision is the whole current file (second range ends at the file's end) - whichever of the signature's
// attributes (type, sub-filter) the two gates consult, they must agree on what a document timestamp is.
//
//verif:stub github.com/pdfcpu/pdfcpu/pkg/pdfcpu.signatureSubFilter=verifStubSubFilter
//verif:stub github.com/pdfcpu/pdfcpu/pkg/pdfcpu.detectPermissions=verifStubDetectPerms
//verif:stub github.com/pdfcpu/pdfcpu/pkg/pdfcpu.signatureDetails=verifStubSigDetails
//verif:stub github.com/pdfcpu/pdfcpu/pkg/pdfcpu.userCertificatePool=verifStubCertPool
func VerifSignatureRevisionGate() {
	c, d := vp.Int(), vp.Int()
	fileSize := vp.Int64()
	increment := vp.IntIn(0, 3)
	subFilter := []string{"adbe.pkcs7.detached", "ETSI.CAdES.detached", "ETSI.RFC3161", "adbe.x509.rsa_sha1"}[vp.Choice(4)]
	sigType := vp.Choice(4)
	sigDict := types.Dict{
		"ByteRange": types.Array{types.Integer(0), types.Integer(vp.Int()), types.Integer(c), types.Integer(d)},
		"SubFilter": types.Name(subFilter),
	}
	if sigType == model.SigTypeDTS {
		sigDict["Type"] = types.Name("DocTimeStamp")
	} else {
		sigDict["Type"] = types.Name("Sig")
	}
	xt := &model.XRefTable{Table: map[int]*model.XRefTableEntry{}}
	g5, g6 := 0, 0
	xt.Table[5] = &model.XRefTableEntry{Object: types.Dict{"FT": types.Name("Sig"), "V": *types.NewIndirectRef(6, 0)}, Generation: &g5}
	xt.Table[6] = &model.XRefTableEntry{Object: sigDict, Generation: &g6}
	ctx := &model.Context{Configuration: &model.Configuration{}, XRefTable: xt, Read: &model.ReadContext{FileSize: fileSize}}
	sig := model.Signature{ObjNr: 5, Type: sigType}
	res, err := validateSignature(sig, ctx, nil, vp.Bool(), vp.Bool(), increment)
	if err != nil || res == nil {
		return
	}
	wellFormed := c >= 0 && d >= 0 && uint64(c)+uint64(d) <= 1<<63-1 && fileSize >= 0
	if res.DocModified == model.False && wellFormed {
		vp.Assert(int64(c)+int64(d) == fileSize, "a signature is reported as covering the unmodified document although its signed revision does not end at the end of the file")
	}
}
