package primitives

import (
	"context"
	"net"
	"net/http"
	"net/url"

	"github.com/pdfcpu/pdfcpu/internal/zzverif/vp"
)

func verifBlocked4(a, b, c, d byte) bool {
	loopback := a == 127
	private := a == 10 || (a == 172 && b&0xf0 == 16) || (a == 192 && b == 168)
	linkLocal := a == 169 && b == 254
	multicast := a&0xf0 == 224
	unspecified := a == 0 && b == 0 && c == 0 && d == 0
	return loopback || private || linkLocal || multicast || unspecified
}

func verifBlocked(ip []byte) bool {
	if len(ip) == 4 {
		return verifBlocked4(ip[0], ip[1], ip[2], ip[3])
	}
	mapped := ip[10] == 0xff && ip[11] == 0xff
	allZero := true
	for i := 0; i < 16; i++ {
		if i < 10 {
			mapped = vp.And(mapped, ip[i] == 0)
		}
		if i < 15 {
			allZero = vp.And(allZero, ip[i] == 0)
		}
	}
	if vp.Fork(mapped) {
		return verifBlocked4(ip[12], ip[13], ip[14], ip[15])
	}
	loopback := vp.And(allZero, ip[15] == 1)
	unspecified := vp.And(allZero, ip[15] == 0)
	private := ip[0]&0xfe == 0xfc
	linkLocal := ip[0] == 0xfe && ip[1]&0xc0 == 0x80
	multicast := ip[0] == 0xff
	return loopback || unspecified || private || linkLocal || multicast
}

func verifDrawAnswers(k int) ([]net.IPAddr, [][]byte) {
	var answers []net.IPAddr
	raw := make([][]byte, k)
	for i := 0; i < k; i++ {
		n := []int{4, 16}[vp.Choice(2)]
		raw[i] = vp.Bytes(n)
		ip := make(net.IP, n)
		copy(ip, raw[i])
		answers = append(answers, net.IPAddr{IP: ip})
	}
	return answers, raw
}

// VerifImageBoxIPs: remote image hosts: an answer set is accepted exactly when it is non-empty and no
// answer is a loopback / private / link-local / multicast / unspecified address.
func VerifImageBoxIPs() {
	k := vp.IntRange(0, vp.Bound("K"))
	answers, raw := verifDrawAnswers(k)
	err := rejectImageBoxIPs("img.test", answers)
	anyBlocked := false
	for i := range raw {
		anyBlocked = vp.Or(anyBlocked, verifBlocked(raw[i]))
	}
	vp.Assert((err == nil) == vp.And(k > 0, !anyBlocked), "remote image address check disagrees with the address classes of the property")
}

var verifAnswers []net.IPAddr
var verifDialled bool

func verifLookup(r *net.Resolver, ctx context.Context, host string) ([]net.IPAddr, error) {
	return verifAnswers, nil
}

func verifDial(d *net.Dialer, ctx context.Context, network, addr string) (net.Conn, error) {
	verifDialled = true
	return nil, nil
}

func verifIPString(ip net.IP) string { return "ip" }

//verif:stub (*net.Resolver).LookupIPAddr=verifLookup
//verif:stub (*net.Dialer).DialContext=verifDial
//verif:stub (net.IP).String=verifIPString
// VerifImageBoxDial (engine only: resolver and dialer are stubbed): the dial hook of the remote image
// client opens a connection only if every DNS answer is outside the blocked classes.
func VerifImageBoxDial() {
	if !vp.Symbolic() {
		return // natively this would perform real DNS lookups
	}
	k := vp.IntRange(1, vp.Bound("K"))
	var raw [][]byte
	verifAnswers, raw = verifDrawAnswers(k)
	verifDialled = false
	fn := imageBoxDialContext(&net.Dialer{})
	_, err := fn(context.Background(), "tcp", "img.test:80")
	anyBlocked := false
	for i := range raw {
		anyBlocked = vp.Or(anyBlocked, verifBlocked(raw[i]))
	}
	vp.Assert(verifDialled == !anyBlocked, "remote image dial hook connected to a blocked address, or refused public ones")
	vp.Assert((err != nil) == anyBlocked, "remote image dial hook outcome disagrees with the answer set")
}

func verifRedacted(u *url.URL) string { return "redacted" }

//verif:stub (*net/url.URL).Redacted=verifRedacted
// VerifImageBoxURL: remote image URLs: no credentials, non-empty host, IP-literal hosts outside the blocked
// classes; redirects obey the same rule; the transport has no proxy.
func VerifImageBoxURL() {
	var user *url.Userinfo
	if vp.Bool() {
		user = url.User("u")
	}
	host := []string{"", "a", "a:80", ":80", "[::1]:80", "127.0.0.1", "10.1.2.3:8080", "8.8.8.8", "[fe80::1]", "169.254.1.1", "224.0.0.1", "0.0.0.0", "192.168.0.1"}[vp.Choice(13)]
	blockedLiteral := host == "[::1]:80" || host == "127.0.0.1" || host == "10.1.2.3:8080" || host == "[fe80::1]" || host == "169.254.1.1" || host == "224.0.0.1" || host == "0.0.0.0" || host == "192.168.0.1"
	u := &url.URL{Scheme: "https", User: user, Host: host}
	want := user == nil && host != "" && host != ":80" && !blockedLiteral
	vp.Assert((validateImageBoxRemoteURL(u) == nil) == want, "remote image URL acceptance differs from: no credentials, non-empty host, no blocked IP literal")
	vp.Assert((imageBoxRedirect(&http.Request{URL: u}, nil) == nil) == want, "redirect target accepted under a weaker rule than the initial URL")
	tr := imageBoxTransport(0)
	vp.Assert(tr.Proxy == nil && tr.DialContext != nil, "remote image transport uses a proxy or lacks the guarded dialer")
	sl := vp.IntRange(0, 5)
	scheme := vp.String(sl)
	for i := 0; i < sl; i++ {
		vp.Assume(scheme[i] >= 'a' && scheme[i] <= 'z')
	}
	pu, remote, err := imageBoxRemoteURL(scheme + "://img.test/x.png")
	if scheme != "http" && scheme != "https" {
		vp.Assert(!remote && pu == nil, "a non-http(s) URL is treated as a remote image")
	} else {
		vp.Assert(remote && err == nil && pu != nil, "a plain http(s) image URL is rejected")
	}
}
