package pkcs7

import (
	"crypto/x509"
	"errors"
)

// VerifGetCertOutcome selects what the stub of GetCertFromCertsByIssuerAndSerial returns in C27's gate
// harness (pkg/pdfcpu/sign): 0 = the signer's certificate, 1 = no certificate, 2 = an error.
var VerifGetCertOutcome int

func verifStubGetCert(certs []*x509.Certificate, ias issuerAndSerial) (*x509.Certificate, error) {
	switch VerifGetCertOutcome {
	case 1:
		return nil, nil
	case 2:
		return nil, errors.New("ambiguous signer identifier")
	}
	return &x509.Certificate{}, nil
}
