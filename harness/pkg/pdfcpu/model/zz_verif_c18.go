package model

import (
	"github.com/pdfcpu/pdfcpu/internal/zzverif/vp"
	"github.com/pdfcpu/pdfcpu/pkg/pdfcpu/types"
)

// verifFreeListWellFormed is the oracle of C18's "the free list is a well-formed chain" (ISO 32000-1
// 7.5.4): object 0 is free with generation 65535, following the next-free links from object 0 visits
// only free entries of the table, never the same one twice, and returns to object 0; every free
// entry is on that chain, or is a dead entry (generation 65535) that links to object 0.
func verifFreeListWellFormed(xt *XRefTable, n int) (bool, string) {
	head, ok := xt.Table[0]
	if !ok || head == nil || !head.Free || head.Offset == nil || head.Generation == nil {
		return false, "object 0 is not a free entry"
	}
	if *head.Generation != types.FreeHeadGeneration {
		return false, "object 0 does not have generation 65535"
	}
	seen := map[int]bool{}
	f := int(*head.Offset)
	for steps := 0; f != 0; steps++ {
		if steps > n+1 {
			return false, "free list does not return to object 0"
		}
		e, ok := xt.Table[f]
		if !ok || e == nil {
			return false, "free list links to an object that has no xref entry"
		}
		if !e.Free {
			return false, "free list links to an object in use"
		}
		if seen[f] {
			return false, "free list visits an object twice"
		}
		seen[f] = true
		f = int(*e.Offset)
	}
	for k := 1; k <= n; k++ {
		e, ok := xt.Table[k]
		if !ok || !e.Free || seen[k] {
			continue
		}
		if *e.Generation != types.FreeHeadGeneration {
			return false, "a reusable free object is not on the free list"
		}
		if *e.Offset != 0 {
			return false, "a dead free object (generation 65535) does not link to object 0"
		}
	}
	return true, ""
}

// VerifFreeList (C18): from an arbitrary cross reference table - objects 1..OBJ each absent, in use or
// free with an arbitrary next-free link (possibly dangling, cyclic, pointing at in-use objects or
// beyond the table) and an arbitrary generation, object 0 absent or present with arbitrary link and
// generation - EnsureValidFreeList either fails or leaves a well-formed free list. Map iteration order
// is arbitrary in Go; the engine forks over the starting point of every map iteration (-maprotate).
func VerifFreeList() {
	n := vp.Bound("OBJ")
	xt := &XRefTable{Table: map[int]*XRefTableEntry{}}
	mkFree := func() *XRefTableEntry {
		off := int64(vp.IntIn(0, n+1))
		gen := vp.IntIn(0, 65535)
		return &XRefTableEntry{Free: true, Offset: &off, Generation: &gen}
	}
	if vp.Bool() {
		xt.Table[0] = mkFree()
	}
	nFree := 0
	for k := 1; k <= n; k++ {
		switch vp.IntRange(0, 2) {
		case 0: // no entry
		case 1: // in use
			off := int64(vp.IntIn(0, 1000))
			gen := 0
			xt.Table[k] = &XRefTableEntry{Offset: &off, Generation: &gen}
		case 2:
			xt.Table[k] = mkFree()
			nFree++
		}
	}
	before := map[int]bool{}
	for k, e := range xt.Table {
		before[k] = e.Free
	}
	if err := xt.EnsureValidFreeList(); err != nil {
		// the function only fails on tables it cannot interpret; with every listed free object
		// present and free that must not happen
		vp.Assert(false, "EnsureValidFreeList failed on a table whose free objects all have entries")
		return
	}
	ok, why := verifFreeListWellFormed(xt, n)
	vp.Assert(ok, "free list is not a well-formed chain after EnsureValidFreeList: "+why)
	// repairing the list must not change which objects are free / in use
	for k := 1; k <= n; k++ {
		e, found := xt.Table[k]
		was, had := before[k]
		vp.Assert(found == had && (!found || e.Free == was), "EnsureValidFreeList changed which objects are free")
	}
	// idempotent: a second call on the repaired table keeps it well formed
	if err := xt.EnsureValidFreeList(); err != nil {
		vp.Assert(false, "EnsureValidFreeList failed on its own output")
		return
	}
	ok, why = verifFreeListWellFormed(xt, n)
	vp.Assert(ok, "free list is not well-formed after a second EnsureValidFreeList: "+why)
}
