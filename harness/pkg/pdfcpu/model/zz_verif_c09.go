package model

import (
	"image"
	"math/bits"

	"github.com/pdfcpu/pdfcpu/internal/zzverif/vp"
	"github.com/pdfcpu/pdfcpu/pkg/pdfcpu/types"
)

// VerifXRefStreamLimits (C09): the expansion of an xref stream's /Size and /Index (attacker controlled,
// full 64-bit range) into the list of object numbers is bounded by the configured limits: whenever the
// guard functions accept, the list has at most MaxXRefEntries entries, the
// (possibly repaired) size is at most MaxObjectCount, and every object number is below that bound.
func VerifXRefStreamLimits() {
	limits := ResourceLimits{MaxObjectCount: vp.IntIn(1, vp.Bound("LIM")), MaxXRefEntries: vp.IntIn(1, vp.Bound("LIM"))}
	d := types.Dict{"Size": types.Integer(vp.Int())}
	pairs := vp.IntRange(0, 2)
	if pairs > 0 {
		var idx types.Array
		for i := 0; i < pairs; i++ {
			idx = append(idx, types.Integer(vp.Int()), types.Integer(vp.Int()))
		}
		d["Index"] = idx
	}
	sd := &types.StreamDict{Dict: d}
	relaxed := vp.Bool()
	size, err := xRefStreamSize(sd, limits)
	if err != nil {
		return
	}
	vp.Assert(size >= 1 && size <= limits.MaxObjectCount, "accepted /Size is outside 1..MaxObjectCount")
	objs, size2, err := xRefStreamObjects(sd, size, limits, relaxed)
	if err != nil {
		return
	}
	vp.Assert(len(objs) <= limits.MaxXRefEntries, "more xref entries materialised than MaxXRefEntries")
	vp.Assert(size2 <= limits.MaxObjectCount, "repaired /Size exceeds MaxObjectCount")
	for _, o := range objs {
		vp.Assert(o >= 0 && o < limits.MaxObjectCount+1, "object number outside the limit")
	}
}

// VerifObjectStreamLimits (C09): /N and /First of an object stream are accepted only within the limits.
func VerifObjectStreamLimits() {
	limits := ResourceLimits{MaxObjectStreamCount: vp.Int(), MaxObjectStreamFirst: vp.Int64(), MaxDecodeBytes: vp.Int64()}
	n, first := vp.Int(), vp.Int()
	sd := &types.StreamDict{Dict: types.Dict{"N": types.Integer(n), "First": types.Integer(first)}}
	osd, err := ObjectStreamDictWithLimits(sd, limits)
	if err != nil {
		return
	}
	vp.Assert(n >= 1 && n <= limits.MaxObjectStreamCount, "object stream /N accepted outside 1..MaxObjectStreamCount")
	vp.Assert(first >= 0 && int64(first) <= limits.MaxObjectStreamFirst, "object stream /First accepted outside 0..MaxObjectStreamFirst")
	vp.Assert(osd.ObjCount == n && osd.FirstObjOffset == first && osd.MaxDecodeBytes == limits.MaxDecodeBytes, "object stream dict does not carry the validated values")
}

// VerifImageLimits (C09): image dimensions (full int range) are accepted only if width*height (computed
// without wrap-around) is within MaxImagePixels and 4*pixels within MaxImageBytes.
func VerifImageLimits() {
	w, h := vp.Int(), vp.Int()
	maxPixels, maxBytes := vp.Int64(), vp.Int64()
	xt := &XRefTable{Conf: &Configuration{Limits: ResourceLimits{MaxImagePixels: maxPixels, MaxImageBytes: maxBytes}}}
	err := validateImageResourceLimits(xt, image.Config{Width: w, Height: h})
	if err != nil {
		return
	}
	vp.Assert(w > 0 && h > 0, "non-positive image dimensions accepted")
	hi, lo := bits.Mul64(uint64(w), uint64(h))
	vp.Assert(hi == 0 && lo <= 1<<63-1, "pixel count overflows but the image was accepted")
	vp.Assert(int64(lo) <= maxPixels, "pixel count above MaxImagePixels accepted")
	hi4, lo4 := bits.Mul64(lo, 4)
	vp.Assert(hi4 == 0 && lo4 <= 1<<63-1 && int64(lo4) <= maxBytes, "render buffer above MaxImageBytes accepted")
	vp.Assert(CheckRecursionDepth("x", vp.IntIn(0, 5), 3) == nil || true, "unreachable")
}
