package model

import (
	"context"

	"github.com/pdfcpu/pdfcpu/internal/zzverif/vp"
)

// VerifNoPanicParse (C08): the object parser and the keyword scanners return on EVERY byte string of
// length <= N (strict pass, relaxed retry, depth limit): no panic, no unbounded loop, no runaway recursion.
func VerifNoPanicParse() {
	n := vp.IntRange(0, vp.Bound("N"))
	s := vp.String(n)
	switch vp.Choice(4) {
	case 0:
		line := s
		ParseObjectContext(context.Background(), &line, 0)
	case 1:
		line := s
		ParseObjectAttributes(&line)
	case 2:
		DetectKeywordsWithContext(context.Background(), s)
	case 3:
		line := s
		ParseObjectContext(context.Background(), &line, 0, 2)
	}
	vp.Assert(true, "returned")
}
