package model

import (
	"context"
	"errors"

	"github.com/pdfcpu/pdfcpu/internal/zzverif/vp"
)

// VerifNoPanicParse (C08): the object parser and the keyword scanners return on EVERY byte string of
// length <= N (strict pass, relaxed retry, depth limit): no panic, no unbounded loop, no runaway recursion.
func VerifNoPanicParse() {
	n := vp.IntRange(0, vp.Bound("N"))
	s := vp.String(n)
	switch vp.Choice(4) {
	case 0:
		line := s
		ParseObjectContext(context.Background(), &line, 0)
	case 1:
		line := s
		ParseObjectAttributes(&line)
	case 2:
		DetectKeywordsWithContext(context.Background(), s)
	case 3:
		line := s
		ParseObjectContext(context.Background(), &line, 0, 2)
	}
	vp.Assert(true, "returned")
}

// VerifParseDepthLimit (C08, "no unbounded recursion"): a nest of D+2 containers - every level an array
// or a dictionary value, chosen per level, followed by arbitrary bytes - must be refused with
// ErrMaxRecursionDepthExceeded under a depth limit of D, whatever the mix of arrays and dictionaries:
// a level that does not count lets an attacker recurse as deep as the input is long.
func VerifParseDepthLimit() {
	d := vp.IntRange(1, vp.Bound("DEPTH"))
	s := ""
	for i := 0; i < d+2; i++ {
		if vp.Bool() {
			s += "["
		} else {
			s += "<</K"
		}
		// an arbitrary white-space byte between the levels
		w := vp.Byte()
		vp.Assume(w == 0 || w == 9 || w == 10 || w == 12 || w == 13 || w == 32)
		s += string([]byte{w})
	}
	s += vp.String(vp.IntRange(0, 1))
	line := s
	_, err := ParseObjectContext(context.Background(), &line, 0, d)
	vp.Assert(err != nil, "a nest deeper than the recursion limit was parsed")
	vp.Assert(errors.Is(err, ErrMaxRecursionDepthExceeded), "a nest deeper than the recursion limit was not refused with ErrMaxRecursionDepthExceeded")
}
