package model

import (
	"github.com/pdfcpu/pdfcpu/internal/zzverif/vp"
	"github.com/pdfcpu/pdfcpu/pkg/pdfcpu/types"
)

// verifStubParseFloat: the conversion itself (strconv.ParseFloat on symbolic digits) is not encodable;
// what is checked is which KIND of object a numeric token becomes.
func verifStubParseFloat(s string) (types.Object, error) { return types.Float(1), nil }

// VerifRealTokenKind (C11, reals): a numeric token with a decimal point - 1..DIGITS symbolic integer
// digits, '.', one fraction digit, the form the writer uses for every real - is read back as a real
// whatever its magnitude; in particular it never silently becomes the integer 0.
//
//verif:stub github.com/pdfcpu/pdfcpu/pkg/pdfcpu/model.parseFloat=verifStubParseFloat
func VerifRealTokenKind() {
	n := vp.IntRange(1, vp.Bound("DIGITS"))
	b := vp.Bytes(n)
	for i := range b {
		vp.Assume(b[i] >= '0' && b[i] <= '9')
	}
	vp.Assume(b[0] != '0')
	frac := vp.Byte()
	vp.Assume(frac >= '0' && frac <= '9')
	line := string(b) + "." + string([]byte{frac})
	o, err := parseNumericOrIndRef(&line)
	vp.Assert(err == nil && o != nil, "a well-formed real number token was rejected")
	_, isFloat := o.(types.Float)
	vp.Assert(isFloat, "a real number token (digits, decimal point, digit) was not read back as a real")
}
