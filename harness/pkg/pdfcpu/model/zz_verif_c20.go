package model

import (
	"github.com/pdfcpu/pdfcpu/internal/zzverif/vp"
	"github.com/pdfcpu/pdfcpu/pkg/pdfcpu/types"
)

// verifLeaf draws a leaf object: null, Boolean, Integer, Name, StringLiteral, HexLiteral with symbolic
// values, or (if refs) an indirect reference to object 1..3 (object 3 is undefined = null).
func verifLeaf(refs bool) types.Object {
	kinds := 6
	if refs {
		kinds = 7
	}
	switch vp.Choice(kinds) {
	case 0:
		return nil
	case 1:
		return types.Boolean(vp.Bool())
	case 2:
		return types.Integer(vp.Int())
	case 3:
		return types.Name(vp.String(1))
	case 4:
		return types.StringLiteral(vp.String(1))
	case 5:
		return types.HexLiteral(vp.String(1))
	}
	return *types.NewIndirectRef(vp.IntRange(1, 3), 0) // object 3 is undefined (= null)
}

// verifTree draws an object of depth <= 2: a leaf, an array of <= W leaves, or a dict with <= W entries.
func verifTree(w int) types.Object {
	switch vp.Choice(3) {
	case 0:
		return verifLeaf(true)
	case 1:
		n := vp.IntRange(0, w)
		a := make(types.Array, n)
		for i := range a {
			a[i] = verifLeaf(true)
		}
		return a
	}
	n := vp.IntRange(0, w)
	d := types.Dict{}
	for i := 0; i < n; i++ {
		d[[]string{"A", "B", "C"}[vp.Choice(3)]] = verifLeaf(true)
	}
	return d
}

func verifDeref(o types.Object, table map[int]types.Object) types.Object {
	if ir, ok := o.(types.IndirectRef); ok {
		return table[ir.ObjectNumber.Value()] // undefined object = null
	}
	return o
}

// verifStructEq: independent structural equality of two objects after resolving references
// (a reference and the object it refers to are the same thing; null is only equal to null).
func verifStructEq(o1, o2 types.Object, table map[int]types.Object) bool {
	o1, o2 = verifDeref(o1, table), verifDeref(o2, table)
	if o1 == nil || o2 == nil {
		return o1 == nil && o2 == nil
	}
	switch a := o1.(type) {
	case types.Boolean:
		b, ok := o2.(types.Boolean)
		return ok && vp.Fork(a == b)
	case types.Integer:
		b, ok := o2.(types.Integer)
		return ok && vp.Fork(a == b)
	case types.Name:
		b, ok := o2.(types.Name)
		return ok && vp.Fork(a == b)
	case types.StringLiteral:
		b, ok := o2.(types.StringLiteral)
		return ok && vp.Fork(a == b)
	case types.HexLiteral:
		b, ok := o2.(types.HexLiteral)
		return ok && vp.Fork(a == b)
	case types.Array:
		b, ok := o2.(types.Array)
		if !ok || len(a) != len(b) {
			return false
		}
		for i := range a {
			if !verifStructEq(a[i], b[i], table) {
				return false
			}
		}
		return true
	case types.Dict:
		b, ok := o2.(types.Dict)
		if !ok || len(a) != len(b) {
			return false
		}
		for k, v := range a {
			w, found := b[k]
			if !found || !verifStructEq(v, w, table) {
				return false
			}
		}
		return true
	}
	return false
}

// VerifEqualObjectsSound (C20 kernel): the comparator that decides whether optimisation may replace one
// object by another never calls two objects equal unless they are structurally equal.
func VerifEqualObjectsSound() {
	w := vp.Bound("W")
	table := map[int]types.Object{}
	xt := &XRefTable{Table: map[int]*XRefTableEntry{}}
	for nr := 1; nr <= 2; nr++ {
		var o types.Object
		switch vp.Choice(3) {
		case 1:
			o = types.Integer(vp.Int())
		case 2:
			o = types.Name(vp.String(1))
		}
		table[nr] = o
		xt.Table[nr] = &XRefTableEntry{Object: o}
	}
	o1, o2 := verifTree(w), verifTree(w)
	eq, err := EqualObjects(o1, o2, xt, nil)
	if err != nil || !eq {
		return
	}
	vp.Assert(verifStructEq(o1, o2, table), "EqualObjects calls two structurally different objects equal")
}

// VerifConsolidateNoAliasing (C20, resource consolidation): consolidateResources accumulates the resource
// dictionaries found on the way from the page tree root to a page into a per-page working copy that
// the optimiser then PRUNES to what the page's content uses. The working copy must therefore never
// alias a dictionary of the document: for every shape of the inherited state (none yet / present, with
// or without the sub-dictionary) and of the node's /Resources (direct or indirect, sub-dictionaries
// direct or indirect), emptying every sub-dictionary of the working copy afterwards must leave the
// document's own dictionaries unchanged (two pages sharing a resource dictionary would otherwise lose
// each other's fonts and images).
func VerifConsolidateNoAliasing() {
	xt := &XRefTable{Table: map[int]*XRefTableEntry{}}
	put := func(nr int, o types.Object) types.IndirectRef {
		gen := 0
		xt.Table[nr] = &XRefTableEntry{Object: o, Generation: &gen}
		return *types.NewIndirectRef(nr, 0)
	}
	font := types.Dict{"F1": *types.NewIndirectRef(20, 0), "F2": *types.NewIndirectRef(21, 0)}
	xobj := types.Dict{"Im1": *types.NewIndirectRef(22, 0)}
	res := types.Dict{}
	var fontEntry, xobjEntry types.Object = font, xobj
	if vp.Bool() {
		fontEntry = put(10, font)
	}
	if vp.Bool() {
		xobjEntry = put(11, xobj)
	}
	if vp.Bool() {
		res["Font"] = fontEntry
	}
	if vp.Bool() {
		res["XObject"] = xobjEntry
	}
	var node types.Object = res
	if vp.Bool() {
		node = put(12, res)
	}
	pAttrs := &InheritedPageAttrs{}
	switch vp.IntRange(0, 2) {
	case 1: // inherited resources without the sub-dictionaries of this node
		pAttrs.Resources = types.Dict{"ProcSet": types.Array{types.Name("PDF")}}
	case 2: // inherited resources that already have a font sub-dictionary
		pAttrs.Resources = types.Dict{"Font": types.Dict{"F0": *types.NewIndirectRef(23, 0)}}
	}
	if err := xt.consolidateResources(node, pAttrs); err != nil {
		return
	}
	// the optimiser prunes the working copy
	for _, v := range pAttrs.Resources {
		if d, ok := v.(types.Dict); ok {
			for k := range d {
				delete(d, k)
			}
		}
	}
	for k := range pAttrs.Resources {
		delete(pAttrs.Resources, k)
	}
	vp.Assert(len(font) == 2 && len(xobj) == 1, "pruning a page's working copy of the resources changed a resource dictionary of the document (aliasing)")
	_, hasFont := res["Font"]
	_, hasX := res["XObject"]
	vp.Assert(len(res) == btoi(hasFont)+btoi(hasX), "pruning a page's working copy changed the node's /Resources dictionary")
}

func btoi(b bool) int {
	if b {
		return 1
	}
	return 0
}
