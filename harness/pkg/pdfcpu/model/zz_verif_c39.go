package model

import (
	"github.com/pdfcpu/pdfcpu/internal/zzverif/vp"
	"github.com/pdfcpu/pdfcpu/pkg/pdfcpu/types"
)

type verifKV struct {
	k string
	v int
}

// verifCheckTree walks the tree: keys in order (appended to acc), limits of every node equal min/max below.
func verifCheckTree(n *Node, acc *[]verifKV) (min, max string, empty bool) {
	if n.leaf() {
		if len(n.Names) == 0 {
			return "", "", true
		}
		for _, e := range n.Names {
			iv, ok := e.v.(types.Integer)
			vp.Assert(ok, "name tree value lost its type")
			*acc = append(*acc, verifKV{e.k, int(iv)})
		}
		vp.Assert(n.Kmin == n.Names[0].k && n.Kmax == n.Names[len(n.Names)-1].k, "leaf limits do not match its first/last key")
		return n.Names[0].k, n.Names[len(n.Names)-1].k, false
	}
	first := true
	for _, kid := range n.Kids {
		kmin, kmax, e := verifCheckTree(kid, acc)
		vp.Assert(!e, "an empty kid node remains in the tree")
		if e {
			continue
		}
		if first {
			min, first = kmin, false
		}
		max = kmax
	}
	vp.Assert(n.Kmin == min && n.Kmax == max, "intermediate node limits do not match the keys below it")
	return min, max, false
}

func verifCheckAgainst(root *Node, ref []verifKV) {
	var inorder []verifKV
	verifCheckTree(root, &inorder)
	vp.Assert(len(inorder) == len(ref), "tree holds a different number of keys than the reference map")
	for i := 0; i+1 < len(inorder); i++ {
		vp.Assert(inorder[i].k < inorder[i+1].k, "keys are not unique and strictly ascending")
	}
	for _, e := range ref {
		v, found := root.Value(e.k)
		vp.Assert(found, "a key of the reference map is not found in the tree")
		iv, isInt := v.(types.Integer)
		vp.Assert(isInt && int(iv) == e.v, "lookup returns a different value than the reference map")
	}
}

// VerifNameTreeHistory (C39): histories of I inserts followed by R removals with symbolic 1-byte keys on an
// initially empty name tree (maxEntries = 3, so the 4th insert splits the leaf): after every operation keys
// are unique and strictly ascending, every node's limits equal the smallest/largest key below it, lookups
// agree with a reference association list. The solver enumerates the feasible orderings of the keys.
func VerifNameTreeHistory() {
	root := &Node{}
	var ref []verifKV // reference map (insert does not overwrite, like the tree without a NameMap)
	inserts := vp.IntRange(1, vp.Bound("I"))
	for step := 0; step < inserts; step++ {
		key := vp.String(1)
		err := root.Add(nil, key, types.Integer(step), nil, nil)
		vp.Assert(err == nil, "Add failed")
		present := false
		for _, e := range ref {
			if vp.Fork(e.k == key) {
				present = true
			}
		}
		if !present {
			ref = append(ref, verifKV{key, step})
		}
		verifCheckAgainst(root, ref)
	}
	removals := vp.IntRange(0, vp.Bound("R"))
	for step := 0; step < removals && len(ref) > 0; step++ {
		var key string
		if vp.Choice(4) == 0 {
			key = vp.String(1) // arbitrary key, possibly absent
		} else {
			key = ref[vp.Choice(len(ref))].k
		}
		empty, ok, err := root.Remove(nil, key)
		vp.Assert(err == nil, "Remove failed")
		present := false
		var kept []verifKV
		for _, e := range ref {
			if vp.Fork(e.k == key) {
				present = true
			} else {
				kept = append(kept, e)
			}
		}
		ref = kept
		vp.Assert(ok == present, "Remove reported the wrong presence of the key")
		vp.Assert(empty == (len(ref) == 0), "Remove reported the wrong emptiness of the tree")
		if empty {
			root = &Node{}
		}
		verifCheckAgainst(root, ref)
	}
	probe := vp.String(1)
	inRef := false
	for _, e := range ref {
		if vp.Fork(e.k == probe) {
			inRef = true
		}
	}
	_, found := root.Value(probe)
	vp.Assert(found == inRef, "lookup of an arbitrary key disagrees with the reference map")
}

// VerifNameTreeForeignShape (C39, "multi-level trees read from generated documents"): Node.Add only ever
// builds nodes with two kids, but trees written by other producers have wider nodes. A root with KIDS
// leaf kids (1..2 symbolic one-byte keys each, ascending across the tree) is built directly, one key
// (symbolic choice, possibly absent) is removed, and the same invariants must hold: unique ascending
// keys, every node's limits equal to the smallest/largest key below it, lookups agree with the
// reference list.
func VerifNameTreeForeignShape() {
	kids := vp.IntRange(2, vp.Bound("KIDS"))
	root := &Node{}
	var ref []verifKV
	prev := byte(0)
	val := 0
	for i := 0; i < kids; i++ {
		leaf := &Node{}
		cnt := vp.IntRange(1, 2)
		for j := 0; j < cnt; j++ {
			b := vp.Byte()
			vp.Assume(b > prev)
			prev = b
			k := string([]byte{b})
			leaf.Names = append(leaf.Names, entry{k, types.Integer(val)})
			ref = append(ref, verifKV{k, val})
			val++
		}
		leaf.Kmin, leaf.Kmax = leaf.Names[0].k, leaf.Names[len(leaf.Names)-1].k
		root.Kids = append(root.Kids, leaf)
	}
	root.Kmin, root.Kmax = root.Kids[0].Kmin, root.Kids[len(root.Kids)-1].Kmax
	verifCheckAgainst(root, ref)
	var key string
	if vp.Choice(4) == 0 {
		key = vp.String(1)
	} else {
		key = ref[vp.Choice(len(ref))].k
	}
	empty, ok, err := root.Remove(nil, key)
	vp.Assert(err == nil, "Remove failed")
	present := false
	var kept []verifKV
	for _, e := range ref {
		if vp.Fork(e.k == key) {
			present = true
		} else {
			kept = append(kept, e)
		}
	}
	ref = kept
	vp.Assert(ok == present, "Remove reported the wrong presence of the key")
	vp.Assert(empty == (len(ref) == 0), "Remove reported the wrong emptiness of the tree")
	if !empty {
		verifCheckAgainst(root, ref)
	}
}
