package pdfcpu

import (
	"crypto/cipher"
	"crypto/md5"
	"crypto/rc4"
	"hash"

	"github.com/pdfcpu/pdfcpu/internal/zzverif/vp"
	"github.com/pdfcpu/pdfcpu/pkg/pdfcpu/types"
)

// ---- abstract ciphers --------------------------------------------------------------------------
// AES, RC4 and MD5 themselves are not encodable within reach (S-box lookups at symbolic indices; MD5 of
// a symbolic key makes every query carry 64 rounds); the properties checked
// here do not depend on them but on the plumbing around them: key derivation per object, padding, IV
// handling, which cipher and key is applied to which bytes, string escaping of ciphertext. The block
// cipher is replaced by a keyed, position-dependent byte permutation (xor pad: invertible for every key,
// different for different keys; the engine cancels k ^ k syntactically, so round trips under the right
// key need no reasoning about the key's MD5 derivation, while a wrong key leaves MD5 terms the solver
// can satisfy), the stream cipher by a key- and position-dependent XOR stream. Under the engine the stubs
// below are active; natively the real crypto/aes and crypto/rc4 run (the harnesses only observe round
// trips, so both agree as long as the property holds).

type verifToyBlock struct{ key []byte }

func (b verifToyBlock) BlockSize() int { return 16 }

func (b verifToyBlock) Encrypt(dst, src []byte) {
	for i := 0; i < 16; i++ {
		dst[i] = src[i] ^ b.key[i%len(b.key)] ^ byte(i*29+len(b.key))
	}
}

func (b verifToyBlock) Decrypt(dst, src []byte) {
	for i := 0; i < 16; i++ {
		dst[i] = src[i] ^ b.key[i%len(b.key)] ^ byte(i*29+len(b.key))
	}
}

func verifToyAES(key []byte) (cipher.Block, error) {
	k := make([]byte, len(key))
	copy(k, key)
	return verifToyBlock{key: k}, nil
}

type verifToyStream struct {
	key []byte
	pos int
}

var verifRC4 map[*rc4.Cipher]*verifToyStream

func verifToyRC4(key []byte) (*rc4.Cipher, error) {
	if verifRC4 == nil {
		verifRC4 = map[*rc4.Cipher]*verifToyStream{}
	}
	c := new(rc4.Cipher)
	k := make([]byte, len(key))
	copy(k, key)
	verifRC4[c] = &verifToyStream{key: k}
	return c, nil
}

func verifToyXORKeyStream(c *rc4.Cipher, dst, src []byte) {
	s := verifRC4[c]
	for i := range src {
		k := s.key[s.pos%len(s.key)]
		dst[i] = src[i] ^ (k<<1 | k>>7) ^ byte(s.pos*37+len(s.key))
		s.pos++
	}
}

// verifToyHash stands in for MD5 in the per-object key derivation (decryptKey): a 16-byte state mixed
// with every input byte and its position. What matters for the plumbing is that the derived key is a
// function of (file key, object number, generation, "sAlT") that changes when any of them changes.
type verifToyHash struct {
	st  [16]byte
	pos int
}

func (h *verifToyHash) Write(p []byte) (int, error) {
	for _, b := range p {
		i := h.pos % 16
		h.st[i] = h.st[i]*31 + b + byte(h.pos*7+1)
		h.pos++
	}
	return len(p), nil
}
func (h *verifToyHash) Sum(b []byte) []byte { return append(b, h.st[:]...) }
func (h *verifToyHash) Reset()              { *h = verifToyHash{} }
func (h *verifToyHash) Size() int           { return 16 }
func (h *verifToyHash) BlockSize() int      { return 64 }

func verifToyMD5() hash.Hash { return &verifToyHash{} }

func verifCipherParams() (key []byte, needAES bool, r int) {
	// revision / algorithm: RC4-40 (R2, 5 byte key), RC4-128 (R3), AES-128 (R4), AES-256 (R5/R6)
	switch vp.IntRange(0, 4) {
	case 0:
		return vp.Bytes(5), false, 2
	case 1:
		return vp.Bytes(16), false, 3
	case 2:
		return vp.Bytes(16), true, 4
	case 3:
		return vp.Bytes(32), true, 5
	}
	return vp.Bytes(32), true, 6
}

// VerifCipherBytesRoundTrip (C22, byte-level primitives): for every file key, object number, generation,
// algorithm/revision and every byte string of length <= N, decryptBytes(encryptBytes(x)) == x and
// decryptStream(encryptStream(x)) == x; the keys used for two different objects differ in effect only
// through decryptKey (same term on both sides).
//
//verif:stub crypto/md5.New=verifToyMD5
//verif:stub crypto/aes.NewCipher=verifToyAES
//verif:stub crypto/rc4.NewCipher=verifToyRC4
//verif:stub (*crypto/rc4.Cipher).XORKeyStream=verifToyXORKeyStream
func VerifCipherBytesRoundTrip() {
	key, needAES, r := verifCipherParams()
	objNr := vp.IntIn(0, 1<<32-1)
	genNr := vp.IntIn(0, 65535)
	// lengths around the AES block boundaries, up to the bound
	lens := []int{0, 1, 2, 15, 16, 17, 31, 32, 33}
	n := lens[vp.Choice(len(lens))]
	vp.Assume(n <= vp.Bound("N"))
	x := vp.Bytes(n)
	in := make([]byte, n)
	copy(in, x)
	stream := vp.Bool()
	var enc, dec []byte
	var err error
	if stream {
		enc, err = encryptStream(in, objNr, genNr, key, needAES, r)
	} else {
		enc, err = encryptBytes(in, objNr, genNr, key, needAES, r)
	}
	vp.Assert(err == nil, "encryption failed for a valid key, object and generation number")
	if needAES {
		vp.Assert(len(enc) >= 32 && len(enc)%16 == 0, "AES ciphertext is not IV + whole padded blocks")
	} else {
		vp.Assert(len(enc) == n, "RC4 ciphertext length differs from the plaintext length")
	}
	if stream {
		dec, err = decryptStream(enc, objNr, genNr, key, needAES, r)
	} else {
		dec, err = decryptBytes(enc, objNr, genNr, key, needAES, r)
	}
	vp.Assert(err == nil, "decryption of the encryptor's own output failed")
	vp.Assert(len(dec) == n, "decrypted length differs from the original")
	for i := 0; i < n && i < len(dec); i++ {
		vp.Assert(dec[i] == x[i], "decrypted bytes differ from the original")
	}
}

// VerifCipherObjectRoundTrip (C22, strings in objects): encryptDeepObject followed by decryptDeepObject
// returns every string of a nested object unchanged (literal strings compare after unescaping, hex
// strings by their bytes), for symbolic string bytes; signature /Contents stay untouched in both
// directions. File key, object and generation number are representative constants here (their
// handling is the subject of VerifCipherBytesRoundTrip) and the IV is a fixed sequence, so that the
// ciphertext bytes that pass through Escape/Unescape and the hex codec depend on the plaintext only.
//
//verif:stub crypto/md5.New=verifToyMD5
//verif:stub crypto/aes.NewCipher=verifToyAES
//verif:stub crypto/rc4.NewCipher=verifToyRC4
//verif:stub (*crypto/rc4.Cipher).XORKeyStream=verifToyXORKeyStream
func VerifCipherObjectRoundTrip() {
	vp.ConcreteRandom(true)
	var key []byte
	needAES, r := false, 2
	switch vp.IntRange(0, 3) {
	case 0:
		key = []byte{1, 2, 3, 4, 5}
	case 1:
		key, r = []byte("0123456789abcdef"), 3
	case 2:
		key, needAES, r = []byte("0123456789abcdef"), true, 4
	case 3:
		key, needAES, r = []byte("0123456789abcdef0123456789abcdef"), true, 6
	}
	objNr := []int{0, 7, 1 << 20}[vp.Choice(3)]
	genNr := []int{0, 65535}[vp.Choice(2)]
	raw := vp.String(vp.IntRange(0, vp.Bound("S")))
	esc, err := types.Escape(raw)
	vp.Assume(err == nil)
	hexBytes := vp.Bytes(vp.IntRange(0, vp.Bound("S")))
	// /FT and /Type in every combination: a dictionary is a signature (its /Contents stays in the clear)
	// when /FT says so, or - without /FT - when /Type is Sig or DocTimeStamp; e.g. a merged field/widget
	// dictionary has /Type /Annot and /FT /Sig
	ft := []string{"", "Sig", "Tx"}[vp.Choice(3)]
	typ := []string{"", "Sig", "DocTimeStamp", "Annot"}[vp.Choice(4)]
	sig := ft == "Sig" || (ft == "" && (typ == "Sig" || typ == "DocTimeStamp"))
	inner := types.Dict{"S": types.StringLiteral(*esc), "N": types.Integer(7)}
	d := types.Dict{
		"A":        types.Array{types.NewHexLiteral(hexBytes), inner, types.Name("Nm")},
		"Contents": types.NewHexLiteral([]byte{0xAB, 0xCD}),
	}
	if ft != "" {
		d["FT"] = types.Name(ft)
	}
	if typ != "" {
		d["Type"] = types.Name(typ)
	}
	_, err = encryptDeepObject(d, objNr, genNr, key, needAES, r)
	vp.Assert(err == nil, "encryptDeepObject failed")
	c := d["Contents"].(types.HexLiteral)
	cb, _ := c.Bytes()
	if sig {
		vp.Assert(len(cb) == 2 && cb[0] == 0xAB && cb[1] == 0xCD, "signature /Contents was encrypted")
	} else {
		vp.Assert(len(cb) != 2 || cb[0] != 0xAB || cb[1] != 0xCD, "a string outside a signature dictionary was left in the clear")
	}
	_, err = decryptDeepObject(d, objNr, genNr, key, needAES, r)
	vp.Assert(err == nil, "decryptDeepObject failed on the encryptor's own output")
	a := d["A"].(types.Array)
	hb, err := a[0].(types.HexLiteral).Bytes()
	vp.Assert(err == nil && len(hb) == len(hexBytes), "hex string changed length in the round trip")
	for i := 0; i < len(hexBytes) && i < len(hb); i++ {
		vp.Assert(hb[i] == hexBytes[i], "hex string bytes changed in the round trip")
	}
	sl := a[1].(types.Dict)["S"].(types.StringLiteral)
	back, err := types.Unescape(sl.Value())
	vp.Assert(err == nil && len(back) == len(raw), "literal string changed length in the round trip")
	for i := 0; i < len(raw) && i < len(back); i++ {
		vp.Assert(back[i] == raw[i], "literal string bytes changed in the round trip")
	}
	c2 := d["Contents"].(types.HexLiteral)
	cb2, _ := c2.Bytes()
	vp.Assert(len(cb2) == 2 && cb2[0] == 0xAB && cb2[1] == 0xCD, "/Contents changed in the round trip")
	vp.Assert(a[1].(types.Dict)["N"] == types.Integer(7) && a[2] == types.Name("Nm"), "non-string objects changed")
}

// ---- Algorithm 1 (ISO 32000-1 7.6.2): what is hashed for the per-object key ----

type verifRecHash struct{ in []byte }

var verifLastHash *verifRecHash

func (h *verifRecHash) Write(p []byte) (int, error) { h.in = append(h.in, p...); return len(p), nil }
func (h *verifRecHash) Sum(b []byte) []byte {
	out := make([]byte, 16)
	for i, x := range h.in {
		out[i%16] += x + byte(i)
	}
	return append(b, out...)
}
func (h *verifRecHash) Reset()         { h.in = nil }
func (h *verifRecHash) Size() int      { return 16 }
func (h *verifRecHash) BlockSize() int { return 64 }

func verifRecMD5() hash.Hash {
	verifLastHash = &verifRecHash{}
	return verifLastHash
}

// VerifObjectKeyInput (C22, per-object key): for every file key of 5 or 16 bytes, object number below
// 2^32 and generation below 2^16, decryptKey hashes exactly  key || objNr[0..2] (little endian) ||
// gen[0..1] (little endian) [|| "sAlT" for AES]  and returns min(len(key)+5, 16) bytes of the digest -
// Algorithm 1 of ISO 32000-1. (Checked on the hash INPUT, recorded by a stub of md5.New; MD5 itself is
// assumed.) A different slice of the object number would still round-trip inside pdfcpu but no other
// reader could decrypt the file.
//
//verif:stub crypto/md5.New=verifRecMD5
func VerifObjectKeyInput() {
	n := []int{5, 16}[vp.Choice(2)]
	key := vp.Bytes(n)
	objNr := vp.IntIn(0, 1<<32-1)
	genNr := vp.IntIn(0, 65535)
	aes := vp.Bool()
	bigObj, bigGen := vp.IntIn(1<<32, 1<<40), vp.IntIn(65536, 1<<30)
	dk, err := decryptKey(objNr, genNr, key, aes)
	vp.Assert(err == nil, "decryptKey failed for a valid object and generation number")
	want := n + 5
	if want > 16 {
		want = 16
	}
	vp.Assert(len(dk) == want, "per-object key does not have min(n+5,16) bytes")
	exp := append([]byte{}, key...)
	exp = append(exp, byte(objNr), byte(objNr>>8), byte(objNr>>16), byte(genNr), byte(genNr>>8))
	if aes {
		exp = append(exp, "sAlT"...)
	}
	const msg = "per-object key is not MD5(key || objNr[0..2] || gen[0..1] [|| sAlT]) truncated to min(n+5,16) bytes (ISO 32000-1 Algorithm 1)"
	if verifLastHash == nil {
		// native run (replay of a counterexample, differential vectors): library stubs exist under the
		// engine only, so the same fact is checked on the digest with the real MD5
		sum := md5.Sum(exp)
		same := len(dk) <= 16
		for i := range dk {
			same = same && dk[i] == sum[i]
		}
		vp.Assert(same, msg)
	} else {
		in := verifLastHash.in
		same := len(in) == len(exp)
		for i := 0; i < len(in) && i < len(exp); i++ {
			same = vp.And(same, in[i] == exp[i])
		}
		vp.Assert(same, msg)
	}
	// out-of-range numbers are refused rather than truncated silently
	_, err = decryptKey(bigObj, genNr, key, aes)
	vp.Assert(err != nil, "object number above 2^32-1 accepted")
	_, err = decryptKey(objNr, bigGen, key, aes)
	vp.Assert(err != nil, "generation number above 65535 accepted")
}
