package sanitize

import (
	"github.com/pdfcpu/pdfcpu/internal/zzverif/vp"
)

var verifReserved = []string{"CON", "PRN", "AUX", "NUL",
	"COM1", "COM2", "COM3", "COM4", "COM5", "COM6", "COM7", "COM8", "COM9",
	"LPT1", "LPT2", "LPT3", "LPT4", "LPT5", "LPT6", "LPT7", "LPT8", "LPT9"}

func verifUpperASCII(b byte) byte {
	if b >= 'a' && b <= 'z' {
		return b - 32
	}
	return b
}

// verifSafeComponent: r is one safe, relative file name component.
func verifSafeComponent(r string) bool {
	if r == "" || r == "." || r == ".." {
		return false
	}
	ok := true
	for i := 0; i < len(r); i++ {
		c := r[i]
		bad := c == '/' || c == '\\' || c == 0 || c < 0x20 || c == 0x7f || c == ':'
		ok = vp.And(ok, !bad)
	}
	if !vp.Fork(ok) {
		return false
	}
	// no leading/trailing blank or dot (Windows strips them, changing the name)
	if r[0] == ' ' || r[len(r)-1] == ' ' || r[len(r)-1] == '.' {
		return false
	}
	// reserved DOS device stems (case-insensitive, up to the first dot)
	stemLen := len(r)
	for i := 0; i < len(r); i++ {
		if vp.Fork(r[i] == '.') {
			stemLen = i
			break
		}
	}
	for _, dev := range verifReserved {
		if len(dev) != stemLen {
			continue
		}
		same := true
		for i := 0; i < stemLen; i++ {
			same = vp.And(same, verifUpperASCII(r[i]) == dev[i])
		}
		if vp.Fork(same) {
			return false
		}
	}
	return true
}

// VerifSanitizedPath: for every attacker-controlled name of <= N bytes, sanitize.Path either rejects it
// or returns one safe relative component: non-empty, not "." or "..", no path separator, NUL, control
// byte, colon (drive prefix), no trailing dot/blank, not a reserved DOS device name.
func VerifSanitizedPath() {
	n := vp.IntRange(0, vp.Bound("N"))
	s := vp.String(n)
	r, err := Path(s)
	if err != nil {
		return
	}
	vp.Assert(verifSafeComponent(r), "sanitized name is not a safe single path component")
	vp.Assert(PathOr(s, "fallback") == r, "PathOr disagrees with Path")
}

// VerifSanitizedPathDeep: long names built from many components (counts around typical limits such as 8,
// 16, 32, 64), followed by a traversal-style tail and one symbolic byte: the result is still one safe
// component.
func VerifSanitizedPathDeep() {
	counts := []int{0, 1, 2, 7, 8, 9, 15, 16, 17, 31, 32, 33, 63, 64, 65, 127, 128, 129}
	k := counts[vp.Choice(vp.Bound("K"))]
	comp := []string{"d/", "../", "./", "d\\"}[vp.Choice(4)]
	name := ""
	for i := 0; i < k; i++ {
		name += comp
	}
	name += []string{"x", "../x", "x/../../y", "..", "a/b", "../../etc/passwd"}[vp.Choice(6)]
	name += vp.String(1)
	r, err := Path(name)
	if err != nil {
		return
	}
	vp.Assert(verifSafeComponent(r), "sanitized name is not a safe single path component")
}
