package pdfcpu

import (
	"context"

	"github.com/pdfcpu/pdfcpu/internal/zzverif/vp"
	"github.com/pdfcpu/pdfcpu/pkg/pdfcpu/model"
	"github.com/pdfcpu/pdfcpu/pkg/pdfcpu/types"
)

// VerifEncryptedWrite (C23, writer level): with an encryption key set, the generic object writer
// (writeObjectGeneric -> writeStringLiteralObject / writeHexLiteralObject / writeDictObject /
// writeArrayObject / writeDeepStreamDict + writeStreamDictObject) writes every string and every stream
// of an object encrypted: the bytes written are parsed back by the strict object parser and decrypted
// with the same key, object and generation number, and must give back the original strings and stream
// data. A string or stream that the writer left in the clear decrypts to something else (the abstract
// ciphers' pads are non-zero for the keys used; natively the real ciphers run). AES ciphertext must also
// have the shape IV + whole blocks, which no short plaintext has. The /Contents of a signature
// dictionary is the one exception: it must be written in the clear.
//
//verif:stub crypto/md5.New=verifToyMD5
//verif:stub crypto/aes.NewCipher=verifToyAES
//verif:stub crypto/rc4.NewCipher=verifToyRC4
//verif:stub (*crypto/rc4.Cipher).XORKeyStream=verifToyXORKeyStream
func VerifEncryptedWrite() {
	vp.ConcreteRandom(true)
	ctx, buf := verifWriteCtx("\n", 0)
	aesStrings, aesStreams := false, false
	r := 4
	key := []byte("0123456789abcdef")
	switch vp.IntRange(0, 2) {
	case 0:
		aesStrings, aesStreams, r, key = false, false, 2, []byte{9, 8, 7, 6, 5}
	case 1:
		// revision 4 crypt filters: strings and streams may use different methods
		aesStrings, aesStreams = vp.Bool(), vp.Bool()
	case 2:
		aesStrings, aesStreams, r, key = true, true, 6, []byte("0123456789abcdef0123456789abcdef")
	}
	ctx.EncKey, ctx.AES4Strings, ctx.AES4Streams, ctx.E = key, aesStrings, aesStreams, &model.Enc{R: r}
	objNr, genNr := 1, 0
	if vp.Bool() {
		objNr, genNr = 300, 2
	}
	kind := vp.IntRange(0, 5)
	// only the parts an object kind uses are drawn
	var s1 string
	var hb, raw []byte
	if kind != 1 {
		s1 = vp.String(vp.IntRange(0, 1))
	}
	if kind == 1 {
		hb = vp.Bytes(vp.IntRange(0, 1))
	} else {
		hb = []byte{0x5A} // the strict parser forks 16 ways per symbolic hex digit: one symbolic hex string per run
	}
	if kind == 4 {
		raw = vp.Bytes(vp.IntRange(0, 2))
	}
	esc, err := types.Escape(s1)
	vp.Assume(err == nil)
	lit, hex := types.StringLiteral(*esc), types.NewHexLiteral(hb)
	var obj types.Object
	cryptFilter := false
	switch kind {
	case 0:
		obj = lit
	case 1:
		obj = hex
	case 2:
		obj = types.Dict{"T": lit, "K": types.Array{hex, types.Name("N")}, "D": types.Dict{"U": lit}}
	case 3:
		obj = types.Array{lit, types.Dict{"H": hex}, types.Integer(5)}
	case 4:
		l := int64(len(raw))
		sd := types.StreamDict{Dict: types.Dict{"Length": types.Integer(l), "F": lit}, Raw: append([]byte{}, raw...), StreamLength: &l}
		// an Identity crypt filter exempts the stream DATA from encryption - never the strings of its dictionary
		cryptFilter = vp.Bool()
		if cryptFilter {
			sd.Dict["Filter"] = types.Name("Crypt")
			sd.FilterPipeline = []types.PDFFilter{{Name: "Crypt"}}
		}
		obj = sd
	case 5:
		obj = types.Dict{"Type": types.Name("Sig"), "Filter": types.Name("F"), "SubFilter": types.Name("S"),
			"Contents": types.NewHexLiteral([]byte{0xAB}), "ByteRange": types.Array{types.Integer(0), types.Integer(1), types.Integer(2), types.Integer(3)}, "Reason": lit}
	}
	if err := writeObjectGeneric(ctx, obj, objNr, genNr); err != nil {
		return
	}
	if err := ctx.Write.Flush(); err != nil {
		return
	}
	out := buf.Bytes()
	hdr := objectHeader(objNr, genNr, "\n")
	vp.Assert(verifHasPrefixAt(out, 0, hdr), "object header missing")
	body := string(out[len(hdr):])
	got, err := model.ParseObjectContext(context.Background(), &body, 0)
	vp.Assert(err == nil, "the written object does not parse")
	needAES := aesStrings
	checkLit := func(o types.Object, what string) {
		sl, ok := o.(types.StringLiteral)
		vp.Assert(ok, what+": not written as a literal string")
		if needAES {
			cb, err := types.Unescape(sl.Value())
			vp.Assert(err == nil && len(cb) >= 32 && len(cb)%16 == 0, what+": written string does not have the shape of AES ciphertext")
		}
		d, err := decryptStringLiteral(sl, objNr, genNr, key, needAES, r)
		vp.Assert(err == nil, what+": written string does not decrypt")
		back, err := types.Unescape(d.Value())
		same := err == nil && len(back) == len(s1)
		for i := 0; i < len(s1) && i < len(back); i++ {
			same = vp.And(same, back[i] == s1[i])
		}
		vp.Assert(same, what+": written string does not decrypt to the original (left in the clear or encrypted with another key)")
	}
	checkHex := func(o types.Object, what string) {
		hl, ok := o.(types.HexLiteral)
		vp.Assert(ok, what+": not written as a hex string")
		if needAES {
			cb, err := hl.Bytes()
			vp.Assert(err == nil && len(cb) >= 32 && len(cb)%16 == 0, what+": written hex string does not have the shape of AES ciphertext")
		}
		d, err := decryptHexLiteral(hl, objNr, genNr, key, needAES, r)
		vp.Assert(err == nil, what+": written hex string does not decrypt")
		back, err := d.Bytes()
		same := err == nil && len(back) == len(hb)
		for i := 0; i < len(hb) && i < len(back); i++ {
			same = vp.And(same, back[i] == hb[i])
		}
		vp.Assert(same, what+": written hex string does not decrypt to the original (left in the clear or encrypted with another key)")
	}
	switch kind {
	case 0:
		checkLit(got, "string object")
	case 1:
		checkHex(got, "hex string object")
	case 2:
		d, ok := got.(types.Dict)
		vp.Assert(ok, "dictionary not written as a dictionary")
		checkLit(d["T"], "dictionary entry")
		a, _ := d["K"].(types.Array)
		vp.Assert(len(a) == 2, "array entry lost")
		checkHex(a[0], "string in an array in a dictionary")
		dd, _ := d["D"].(types.Dict)
		checkLit(dd["U"], "string in a nested dictionary")
	case 3:
		a, ok := got.(types.Array)
		vp.Assert(ok && len(a) == 3, "array not written as an array")
		checkLit(a[0], "array element")
		dd, _ := a[1].(types.Dict)
		checkHex(dd["H"], "string in a dictionary in an array")
	case 4:
		d, ok := got.(types.Dict)
		vp.Assert(ok, "stream dictionary not written as a dictionary")
		checkLit(d["F"], "string in a stream dictionary")
		lp := d.Int64Entry("Length")
		vp.Assert(lp != nil, "stream /Length missing")
		dictStr := len(out) - len(body)
		_ = dictStr
		// the parser consumed the dictionary: what is left of body starts with EOL stream EOL
		vp.Assert(len(body) >= 8 && body[:8] == "\nstream\n", "stream keyword missing after the dictionary")
		data := []byte(body[8:])
		n := int(*lp)
		vp.Assert(n >= 0 && n <= len(data) && string(data[n:]) == "\nendstream\nendobj\n", "/Length is not the number of stream bytes written")
		if cryptFilter {
			same := n == len(raw)
			for i := 0; i < len(raw) && i < n; i++ {
				same = vp.And(same, data[i] == raw[i])
			}
			vp.Assert(same, "data of a stream with an Identity crypt filter was not written as is")
			break
		}
		if aesStreams {
			vp.Assert(n >= 32 && n%16 == 0, "written stream does not have the shape of AES ciphertext")
		}
		plain, err := decryptStream(append([]byte{}, data[:n]...), objNr, genNr, key, aesStreams, r)
		same := err == nil && len(plain) == len(raw)
		for i := 0; i < len(raw) && i < len(plain); i++ {
			same = vp.And(same, plain[i] == raw[i])
		}
		vp.Assert(same, "written stream data does not decrypt to the original (left in the clear or encrypted with another key)")
	case 5:
		d, ok := got.(types.Dict)
		vp.Assert(ok, "signature dictionary not written as a dictionary")
		c, ok := d["Contents"].(types.HexLiteral)
		cb, err := c.Bytes()
		vp.Assert(ok && err == nil && len(cb) == 1 && cb[0] == 0xAB, "signature /Contents was not written in the clear")
		checkLit(d["Reason"], "string in a signature dictionary")
	}
}
