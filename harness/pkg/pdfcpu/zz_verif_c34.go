package pdfcpu

import (
	"github.com/pdfcpu/pdfcpu/internal/zzverif/vp"
	"github.com/pdfcpu/pdfcpu/pkg/pdfcpu/model"
	"github.com/pdfcpu/pdfcpu/pkg/pdfcpu/types"
)

func verifBookletConf(n int, btype model.BookletType, binding model.BookletBinding, landscape bool) *model.NUp {
	nup := DefaultBookletConfig()
	switch n {
	case 2:
		nup.Grid = &types.Dim{Width: 1, Height: 2}
	case 4:
		nup.Grid = &types.Dim{Width: 2, Height: 2}
	case 6:
		nup.Grid = &types.Dim{Width: 2, Height: 3}
	case 8:
		nup.Grid = &types.Dim{Width: 2, Height: 4}
	}
	nup.BookletType = btype
	nup.BookletBinding = binding
	if landscape {
		nup.PageDim = &types.Dim{Width: 842, Height: 595}
	} else {
		nup.PageDim = &types.Dim{Width: 595, Height: 842}
	}
	return nup
}

var verifBookletN = []int{2, 4, 6, 8}

func verifDrawBookletConf() (*model.NUp, int) {
	n := verifBookletN[vp.Choice(4)]
	btype := model.BookletType(vp.Choice(3)) // Booklet, BookletAdvanced, BookletPerfectBound
	binding := model.BookletBinding(vp.Choice(2))
	landscape := vp.Choice(2) == 1
	return verifBookletConf(n, btype, binding, landscape), n
}

// VerifBookletSlots: for every accepted single-signature configuration and padded page count
// (a whole number of sheets, up to SHEETS sheets) the slot -> page map used by getBookletPageOrdering is
// in range and injective for ALL pairs of slots i != j (i, j symbolic). An injective map of [0,n) into
// [1,n] is a bijection, so every page is placed exactly once and, with fewer selected pages, the
// remaining slots are blanks.
func VerifBookletSlots() {
	nup, n := verifDrawBookletConf()
	sheets := vp.IntRange(1, vp.Bound("SHEETS"))
	count := sheets * 2 * n
	pageNumbers := make([]int, count)
	for k := range pageNumbers {
		pageNumbers[k] = k + 1
	}
	// the real dispatcher decides which slot function is used: run it on the identity page list
	order := getBookletPageOrdering(nup, pageNumbers, count)
	vp.Assert(len(order) == count, "booklet ordering has the wrong number of slots")
	// look slots up with symbolic indices
	i, j := vp.IntIn(0, count-1), vp.IntIn(0, count-1)
	vp.Assume(i != j)
	nums := make([]int, count)
	for k := range order {
		nums[k] = order[k].Number
	}
	pi, pj := nums[i], nums[j]
	vp.Assert(pi >= 1 && pi <= count, "a slot holds a page number outside 1..page count (or a blank although every page is selected)")
	vp.Assert(pi != pj, "two slots hold the same page")
}

// VerifBookletSlotFunction: the same property proved on the slot arithmetic itself with a SYMBOLIC slot
// index (the functions are evaluated on symbolic position numbers, not tabulated).
func VerifBookletSlotFunction() {
	nup, n := verifDrawBookletConf()
	sheets := vp.IntRange(1, vp.Bound("SHEETS"))
	count := sheets * 2 * n
	pageNumbers := make([]int, count)
	for k := range pageNumbers {
		pageNumbers[k] = k + 1
	}
	var fn pageNumberFunction
	switch nup.BookletType {
	case model.Booklet, model.BookletAdvanced:
		switch n {
		case 2:
			fn = nup2OutputPageNr
		case 4:
			fn = nup4OutputPageNr
		case 6:
			fn = nupLRTBOutputPageNr
		case 8:
			if nup.BookletBinding == model.ShortEdge {
				fn = nupLRTBOutputPageNr
			} else {
				fn = nup8OutputPageNr
			}
		}
	case model.BookletPerfectBound:
		fn = nupPerfectBound
	}
	i, j := vp.IntIn(0, count-1), vp.IntIn(0, count-1)
	vp.Assume(i != j)
	pi, _ := fn(i, count, pageNumbers, nup)
	pj, _ := fn(j, count, pageNumbers, nup)
	vp.Assert(pi >= 1 && pi <= count, "slot function yields a page outside 1..page count")
	vp.Assert(pi != pj, "slot function maps two slots to the same page")
}

// VerifExportGetBookletOrdering lets harnesses of package api (which owns the configuration
// validation) drive the unexported ordering function.
func VerifExportGetBookletOrdering(pages types.IntSet, nup *model.NUp) []model.BookletPage {
	return getBookletOrdering(pages, nup)
}
