"""Reasons for properties that are not claimed."""
NA = {
    "C24": "Needs MD5/SHA-2/RC4/AES as uninterpreted functions (not built); revision 6 hashRev6 has a data-dependent loop over hash outputs.",
    "C32": "Only composePageRotation's modular arithmetic is encodable; the property is about page tree surgery on whole documents.",
    "C41": "Stream plumbing kernels only; equality of stream and file outputs, JSON validity and exit status need the whole CLI process.",
    "C10": "Cancellation latency / mid-read cancellation are timing and scheduling properties; the sequential symbolic executor has no clock and no goroutines, and the 'already cancelled' half needs NewContext/readXRefTable on a whole file, which is not encodable within reach.",
    "C19": "Needs the full writer and reader on whole documents (pointer-rich heaps, bufio, Flate, thousands of calls): outside a bounded SSA executor's reach; no kernel carries the property.",
    "C21": "operation ∘ writer ∘ validator on whole documents: not encodable within reach.",
    "C29": "Signature removal acts on a concrete whole-document object graph; nothing input-valued remains to make symbolic once the graph is fixed.",
    "C35": "Edit histories through model.Context, XMP metadata streams and name trees of whole documents; the only kernel (Unicode text round trip) is C13.",
    "C37": "Form fill/export runs through appearance-stream generation, fonts and the whole document.",
    "C38": "Watermark add/remove rewrites content streams of whole documents with float formatting throughout.",
    "C40": "Concurrency: go/ssa Go/channel/sync semantics and the Go memory model are not modelled; data races are not expressible in a sequential executor.",
}
