"""Reasons for properties that are not claimed."""
NA = {
    "C10": "Cancellation latency / mid-read cancellation are timing and scheduling properties; the sequential symbolic executor has no clock and no goroutines, and the 'already cancelled' half needs NewContext/readXRefTable on a whole file, which is not encodable within reach.",
    "C19": "Needs the full writer and reader on whole documents (pointer-rich heaps, bufio, Flate, thousands of calls): outside a bounded SSA executor's reach; no kernel carries the property.",
    "C21": "operation ∘ writer ∘ validator on whole documents: not encodable within reach.",
    "C29": "Signature removal acts on a concrete whole-document object graph; nothing input-valued remains to make symbolic once the graph is fixed.",
    "C35": "Edit histories through model.Context, XMP metadata streams and name trees of whole documents; the only kernel (Unicode text round trip) is C13.",
    "C37": "Form fill/export runs through appearance-stream generation, fonts and the whole document.",
    "C38": "Watermark add/remove rewrites content streams of whole documents with float formatting throughout.",
    "C40": "Concurrency: go/ssa Go/channel/sync semantics and the Go memory model are not modelled; data races are not expressible in a sequential executor.",
}
