"""Reasons for properties that are not claimed."""
NA = {
    "C24": "Key derivation and the O/U/OE/UE/Perms entries ARE MD5/SHA-2/RC4/AES computations (Algorithms 2-13, hashRev6 with a data-dependent loop over hash outputs). Those cores are out of reach of the solver (S-box lookups at symbolic indices; a single query over a real MD5 of a symbolic key did not finish in 10 min) and with the cores abstracted - the only way C22/C23 are decidable - a comparison with the ISO algorithms is vacuous. Only Algorithm 1's hash input is pinned, under C22.",
    "C32": "The property is about page-tree surgery on whole documents (insert/remove/collect pages, boxes through inheritance); the only closed kernel is composePageRotation's modular arithmetic, which does not carry the property. Not claimed.",
    "C41": "Equality of stream and file outputs, JSON validity, absence of log text on stdout and the exit status are properties of the whole CLI process (cobra, os.Exit, encoding/json reflection). The stream plumbing of pkg/cli/io.go is executed symbolically under C01/C03 (VerifStreamInOut), which is as far as the technique reaches here.",
    "C10": "Cancellation latency / mid-read cancellation are timing and scheduling properties; the sequential symbolic executor has no clock and no goroutines, and the 'already cancelled' half needs NewContext/readXRefTable on a whole file, which is not encodable within reach.",
    "C19": "Needs the full writer and reader on whole documents (pointer-rich heaps, bufio, Flate, thousands of calls): outside a bounded SSA executor's reach; no kernel carries the property.",
    "C21": "operation ∘ writer ∘ validator on whole documents: not encodable within reach.",
    "C29": "Signature removal acts on a concrete whole-document object graph; nothing input-valued remains to make symbolic once the graph is fixed.",
    "C35": "Edit histories through model.Context, XMP metadata streams and name trees of whole documents; the only kernel (Unicode text round trip) is C13.",
    "C37": "Form fill/export runs through appearance-stream generation, fonts and the whole document.",
    "C38": "Watermark add/remove rewrites content streams of whole documents with float formatting throughout.",
    "C40": "Concurrency: go/ssa Go/channel/sync semantics and the Go memory model are not modelled; data races are not expressible in a sequential executor.",
}
