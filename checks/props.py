"""Registry of harness instances per property (read by check.py)."""

SM = "./pkg/pdfcpu/safemath"

TY = "./pkg/pdfcpu/types"
FI = "./pkg/filter"
FO = "./pkg/font"
API = "./pkg/api"
PD = "./pkg/pdfcpu"
CLI = "./pkg/cli"
MO = "./pkg/pdfcpu/model"
SG = "./pkg/pdfcpu/sign"
PR = "./pkg/pdfcpu/primitives"

PROPS = {
    "C01": dict(
        pkg=API,
        explanation="the api *File glue (open input, stage output via O_EXCL reservation or hidden temp file, processing, deferred commit/cleanup) is executed symbolically on the interpreted file system model: path relation (in place, same string, new output, existing output, different spelling, hard link, symbolic link to an existing output / to the input) and the processing outcome (success, error after a partial write, panic) are forked; which file system call of the operation table fails, at which call the process is killed, the file contents and the permission bits are solver variables (every content / mode comparison is an SMT query); attachment extraction (writeAttachments: reservation, staged write, release; names incl. one whose reservation exceeds NAME_MAX, collisions) is harnessed separately; the same harness replays natively on the real file system",
        outside="operations other than the harnessed ones (one harness per wrapper family is written by hand; the generator over all 117 *File functions of DESIGN 3.4 is not built), the processing steps themselves (stubbed: they read the input, write the output, fail or panic), more than one injected fault per run, power loss (C07); of pkg/cli only the stream plumbing of io.go is harnessed (VerifStreamInOut: cli.Optimize with standard input / output redirected to files)",
        assumptions=["file system contract of rt/vfs.go: failed calls change nothing, rename is atomic, O_EXCL create fails iff the name exists, CreateTemp returns a fresh name", "stub contract: processing touches nothing but its reader and writer"],
        harnesses=[dict(name="VerifOptimizeFile", bounds=dict(quick=dict(CALLS=10), thorough=dict(CALLS=12)), opts=dict(unwind=300, workers=8)),
                   dict(name="VerifMergeCreateFile", bounds=dict(quick=dict(CALLS=10), thorough=dict(CALLS=12)), opts=dict(unwind=300, workers=8)),
                   dict(name="VerifMergeAppendFile", bounds=dict(quick=dict(CALLS=10), thorough=dict(CALLS=12)), opts=dict(unwind=300, workers=8)),
                   dict(name="VerifMergeCreateZipFile", bounds=dict(quick=dict(CALLS=10), thorough=dict(CALLS=12)), opts=dict(unwind=300, workers=8)),
                   dict(name="VerifWriteContextAbort", pkg=PD, opts=dict(unwind=300, workers=4)),
                   dict(name="VerifWriteAttachments", bounds=dict(quick=dict(CALLS=14), thorough=dict(CALLS=18)), opts=dict(unwind=3000, workers=8)),
                   dict(name="VerifStreamInOut", pkg=CLI, opts=dict(unwind=300, workers=8))],
    ),
    "C02": dict(
        pkg=API,
        explanation="the api *File glue (open input, stage output via O_EXCL reservation or hidden temp file, processing, deferred commit/cleanup) is executed symbolically on the interpreted file system model: path relation (in place, same string, new output, existing output, different spelling, hard link, symbolic link to an existing output / to the input) and the processing outcome (success, error after a partial write, panic) are forked; which file system call of the operation table fails, at which call the process is killed, the file contents and the permission bits are solver variables (every content / mode comparison is an SMT query); attachment extraction (writeAttachments: reservation, staged write, release; names incl. one whose reservation exceeds NAME_MAX, collisions) is harnessed separately; the same harness replays natively on the real file system",
        outside="operations other than the harnessed ones (one harness per wrapper family is written by hand; the generator over all 117 *File functions of DESIGN 3.4 is not built), the processing steps themselves (stubbed: they read the input, write the output, fail or panic), more than one injected fault per run, power loss (C07), CLI layer (pkg/cli)",
        assumptions=["file system contract of rt/vfs.go: failed calls change nothing, rename is atomic, O_EXCL create fails iff the name exists, CreateTemp returns a fresh name", "stub contract: processing touches nothing but its reader and writer"],
        harnesses=[dict(name="VerifOptimizeFile", bounds=dict(quick=dict(CALLS=10), thorough=dict(CALLS=12)), opts=dict(unwind=300, workers=8)),
                   dict(name="VerifMergeCreateFile", bounds=dict(quick=dict(CALLS=10), thorough=dict(CALLS=12)), opts=dict(unwind=300, workers=8)),
                   dict(name="VerifMergeAppendFile", bounds=dict(quick=dict(CALLS=10), thorough=dict(CALLS=12)), opts=dict(unwind=300, workers=8)),
                   dict(name="VerifMergeCreateZipFile", bounds=dict(quick=dict(CALLS=10), thorough=dict(CALLS=12)), opts=dict(unwind=300, workers=8)),
                   dict(name="VerifWriteContextAbort", pkg=PD, opts=dict(unwind=300, workers=4))],
    ),
    "C03": dict(
        pkg=API,
        explanation="the api *File glue (open input, stage output via O_EXCL reservation or hidden temp file, processing, deferred commit/cleanup) is executed symbolically on the interpreted file system model: path relation (in place, same string, new output, existing output, different spelling, hard link, symbolic link to an existing output / to the input) and the processing outcome (success, error after a partial write, panic) are forked; which file system call of the operation table fails, at which call the process is killed, the file contents and the permission bits are solver variables (every content / mode comparison is an SMT query); attachment extraction (writeAttachments: reservation, staged write, release; names incl. one whose reservation exceeds NAME_MAX, collisions) is harnessed separately; the same harness replays natively on the real file system",
        outside="operations other than the harnessed ones (one harness per wrapper family is written by hand; the generator over all 117 *File functions of DESIGN 3.4 is not built), the processing steps themselves (stubbed: they read the input, write the output, fail or panic), more than one injected fault per run, power loss (C07), CLI layer (pkg/cli)",
        assumptions=["file system contract of rt/vfs.go: failed calls change nothing, rename is atomic, O_EXCL create fails iff the name exists, CreateTemp returns a fresh name", "stub contract: processing touches nothing but its reader and writer"],
        harnesses=[dict(name="VerifOptimizeFile", bounds=dict(quick=dict(CALLS=10), thorough=dict(CALLS=12)), opts=dict(unwind=300, workers=8)),
                   dict(name="VerifMergeCreateFile", bounds=dict(quick=dict(CALLS=10), thorough=dict(CALLS=12)), opts=dict(unwind=300, workers=8)),
                   dict(name="VerifMergeAppendFile", bounds=dict(quick=dict(CALLS=10), thorough=dict(CALLS=12)), opts=dict(unwind=300, workers=8)),
                   dict(name="VerifMergeCreateZipFile", bounds=dict(quick=dict(CALLS=10), thorough=dict(CALLS=12)), opts=dict(unwind=300, workers=8)),
                   dict(name="VerifWriteContextAbort", pkg=PD, opts=dict(unwind=300, workers=4)),
                   dict(name="VerifStreamInOut", pkg=CLI, opts=dict(unwind=300, workers=8))],
    ),
    "C04": dict(
        pkg="./cmd/pdfcpu",
        pregen=["tools/gen_c04.py"],
        explanation="every handle*Command function of cmd/pdfcpu (the table is regenerated from the current sources on every run: 83 handlers today) is executed on the interpreted file system with runCommand replaced by a sink: all argument lists of 0..ARGS entries over a pool of 13 values (input PDFs, existing and absent output files, JSON/CSV files, empty / non-empty / absent directories, '-', a number, a keyword) x --force on/off; whenever the sink is reached with an explicit output file that exists and is not the command's input, or with a non-empty output directory for a directory-writing mode, --force must be set",
        outside="cobra's flag parsing and argument-count validation in front of the handlers (handlers are called with every argument count; a panic on a count cobra would reject is not a violation), option structs other than their zero value, the exit status and the refusal message, that refused commands leave files unchanged (nothing is written before the sink: by reading)",
        assumptions=["append-style commands (import, merge -mode append) treat an existing output as their input, as their usage text documents"],
        harnesses=[dict(name="VerifForceGate", bounds=dict(quick=dict(ARGS=3), thorough=dict(ARGS=3)), opts=dict(unwind=3000), nodiff=False, diff=4)],
    ),
    "C05": dict(
        pkg="./pkg/pdfcpu/sanitize",
        explanation="sanitize.Path / pathPart / PathOr executed symbolically on attacker-controlled names whose every byte is an SMT variable (lengths 0..N, so every UTF-8 class, control characters, separators, drive prefixes, dots and DOS device names up to the bound): the result is rejected or one safe relative path component",
        outside="names longer than N bytes (reserved device names of 4 characters such as COM1 need N >= 4: thorough tier); the call sites that join the sanitised name to the output directory and the collision check between two attachments",
        harnesses=[dict(name="VerifSanitizedPath", bounds=dict(quick=dict(N=2), thorough=dict(N=2)), opts=dict(unwind=100)),
                   dict(name="VerifSanitizedPathDeep", bounds=dict(quick=dict(K=13), thorough=dict(K=18)), opts=dict(unwind=600)),
                   # collisions between output names after sanitising (shared with C01): never a silent overwrite
                   dict(name="VerifWriteAttachments", pkg=API, bounds=dict(quick=dict(CALLS=14), thorough=dict(CALLS=18)), opts=dict(unwind=3000, workers=8))],
    ),
    "C06": dict(
        pkg=FO,
        explanation="the transactional publication kernels executed on the interpreted file system with the real operation tables wrapped by fault injection: commitCollectionFonts / rollbackCollectionFonts (pkg/font), commitStagedFontsWithOperations + rollback/finalize and publishCheatSheets / rollbackCheatSheets (pkg/api/font.go), publishCertificateImports = stage / backup / publish / rollback / cleanup (pkg/api/certificate.go): batches of 1..FILES staged files, each target pre-existing or not (symbolic), the number of the first failing call a solver variable over every call of the table, optionally a second failing call during rollback; the post-state is compared with the exact previous directory tree (all-or-nothing), and when a rollback/cleanup step itself failed every file that stays behind must be named in the error",
        outside="the staging steps that parse fonts / certificates and render cheat sheets (installFontInputs, stageUserFontDemoFiles, prepareCertificateImports); installFonts' reload step; more than two failures; crashes (power loss) between steps",
        assumptions=["file system contract of rt/vfs.go"],
        harnesses=[
            dict(name="VerifCollectionCommit", bounds=dict(quick=dict(FONTS=2, CALLS=14), thorough=dict(FONTS=3, CALLS=22)), opts=dict(unwind=3000)),
            dict(name="VerifFontCommit", pkg=API, bounds=dict(quick=dict(FILES=2, CALLS=20), thorough=dict(FILES=3, CALLS=30)), opts=dict(unwind=3000)),
            dict(name="VerifCheatSheetPublish", pkg=API, bounds=dict(quick=dict(FILES=2, CALLS=20), thorough=dict(FILES=3, CALLS=30)), opts=dict(unwind=3000)),
            dict(name="VerifCertificatePublish", pkg=API, bounds=dict(quick=dict(FILES=2, CALLS=24), thorough=dict(FILES=3, CALLS=36)), opts=dict(unwind=3000)),
        ],
    ),
    "C07": dict(
        pkg=FO,
        explanation="writeGobWithOperations executed with every operation of its table wrapped: the harness records the operation trace and checks the durability protocol for every position of one injected failure: data flushed (fsync after the last write/chmod) before the rename that publishes the font name, directory flushed after the rename before success is reported, target untouched and no temporary file left on failure",
        outside="the power-loss model is the ordering argument (rename of an unflushed file may surface truncated data; an unflushed directory entry may be lost), not an enumeration of post-crash disk states; collection installs (syncDir calls are exercised by C06 but their ordering is not asserted); encoding/gob itself (replaced by a writer of fixed bytes)",
        assumptions=["POSIX durability contract: fsync(file) makes data durable, fsync(dir) makes entries durable, rename is atomic"],
        harnesses=[dict(name="VerifGobDurable", bounds=dict(quick=dict(CALLS=10), thorough=dict(CALLS=12)), opts=dict(unwind=3000)),
                   # the collection commit (shared with C06): success only if the font directory was flushed after the last publication
                   dict(name="VerifCollectionCommit", bounds=dict(quick=dict(FONTS=2, CALLS=14), thorough=dict(FONTS=3, CALLS=22)), opts=dict(unwind=3000))],
    ),
    "C08": dict(
        pkg=TY,
        opts=dict(unwind_violation=True),
        explanation="no-panic harnesses for the parsers of untrusted bytes: object parser (strict + relaxed retry + depth limit), object header and keyword scanners, string/name/date/UTF-16 text decoders, RunLength / ASCIIHex decoders: the input is an arbitrary byte string (every byte an SMT variable) of length <= N; any path on which the engine detects a Go panic (index, slice bound, nil dereference, type assertion, division by zero), an exceeded unwinding bound (non-termination) or runaway recursion is a violation; the recursion limit itself is checked by nests of DEPTH+2 arrays/dictionaries in every mix (with symbolic white space) that must be refused with ErrMaxRecursionDepthExceeded under a limit of DEPTH",
        outside="inputs longer than N bytes; whole-document reading, xref repair, cyclic object graphs, fonts, certificates, PKCS#7, JSON/CSV form data; time bounds; the time.Parse fall-backs of relaxed DateTime (stubbed off)",
        harnesses=[
            dict(name="VerifNoPanicTypes", bounds=dict(quick=dict(N=2), thorough=dict(N=3)), opts=dict(unwind=300)),
            dict(name="VerifNoPanicParse", pkg=MO, bounds=dict(quick=dict(N=2), thorough=dict(N=3)), opts=dict(unwind=300)),
            dict(name="VerifParseDepthLimit", pkg=MO, bounds=dict(quick=dict(DEPTH=3), thorough=dict(DEPTH=5)), opts=dict(unwind=300)),
            dict(name="VerifLimitRunLength", pkg=FI, bounds=dict(quick=dict(N=2), thorough=dict(N=3)), opts=dict(unwind=700)),
            dict(name="VerifLimitASCIIHex", pkg=FI, bounds=dict(quick=dict(N=3), thorough=dict(N=4)), opts=dict(unwind=100)),
        ],
    ),
    "C09": dict(
        pkg=MO,
        explanation="the guard kernels that stand between attacker-controlled integers and allocation, executed symbolically with the integers at full 64-bit range and the limits symbolic: xref stream /Size and /Index expansion (xRefStreamSize, xRefStreamObjects, FromIndex, FromSize; limits symbolic in 1..LIM so that admitted loops stay short), object stream /N and /First (limits fully symbolic), image width x height against MaxImagePixels / MaxImageBytes (all five values fully symbolic, overflow-free product as oracle); the RunLength/ASCIIHex decode-limit kernels (arbitrary encoded bytes, symbolic limit; the harnesses shared with C16) are run here as well. An allocation whose size the path condition does not bound is reported by the engine",
        outside="peak memory and constant factors, decompression itself, readStreamContent growth, recursion depth of whole-document traversals, limits above LIM for the xref expansion loops",
        harnesses=[
            dict(name="VerifXRefStreamLimits", bounds=dict(quick=dict(LIM=4), thorough=dict(LIM=8)), opts=dict(unwind=300)),
            dict(name="VerifObjectStreamLimits", opts=dict(unwind=100)),
            dict(name="VerifImageLimits", opts=dict(enc="int", solver="z3-new", timeout_ms=60000, unwind=100)),
            dict(name="VerifPredictorRowFitsLimit", pkg=FI, opts=dict(enc="int", unwind=100, timeout_ms=60000)),
            # the decode-limit kernels (shared with C16): a bomb must end in ErrDecodeLimitExceeded at the limit
            dict(name="VerifLimitRunLength", pkg=FI, bounds=dict(quick=dict(N=3), thorough=dict(N=3)), opts=dict(unwind=700)),
            dict(name="VerifLimitASCIIHex", pkg=FI, bounds=dict(quick=dict(N=4), thorough=dict(N=4)), opts=dict(unwind=100)),
        ],
    ),
    "C11": dict(
        pkg=PD,
        explanation="appendPDFObject (the writer's object serialiser) followed by model.ParseObjectContext (the reader's object parser), executed symbolically: every leaf kind with symbolic content (null, boolean, integer up to INTMAX in magnitude, names without NUL, escaped literal strings and hex strings of <= S bytes, indirect references), and arrays / dictionaries / nested containers over every ordered pair of neighbouring leaf kinds (separator decisions) with representative concrete leaves and a symbolic one-byte dictionary key; hex strings compare by their bytes, null dictionary entries read back as absent",
        outside="the VALUE of reals (strconv.AppendFloat / ParseFloat on symbolic floats are out of reach; only the KIND a real token of up to DIGITS integer digits is read back as is checked: VerifRealTokenKind), integers beyond INTMAX (the digit reconstruction query is unknown at 120 s for long digit strings in every encoding/solver), strings longer than S bytes, nesting deeper than 2, Dict.PDFString / Array.PDFString (the second serialisation path)",
        harnesses=[
            dict(name="VerifObjectLeafRoundTrip", bounds=dict(quick=dict(S=1, INTMAX=999), thorough=dict(S=2, INTMAX=99999)), opts=dict(unwind=300, timeout_ms=60000)),
            dict(name="VerifRealTokenKind", pkg=MO, bounds=dict(quick=dict(DIGITS=21), thorough=dict(DIGITS=21)), opts=dict(unwind=300, enc="int")),
            dict(name="VerifObjectPairRoundTrip", bounds=dict(quick=dict(S=1, INTMAX=9), thorough=dict(S=1, INTMAX=9)), opts=dict(unwind=300)),
        ],
    ),
    "C12": dict(
        pkg=TY,
        explanation="Escape/Unescape and EncodeName/DecodeName executed symbolically on byte strings whose every byte is an unconstrained SMT variable (lengths 0..N forked); oracles (odd backslash run before each parenthesis; regular printable alphabet; '#' only followed by two hex digits) are plain Go in the harness",
        outside="strings longer than the bound N; the inductive argument that longer strings add no new behaviour is not machine-checked",
        assumptions=["names contain no NUL byte (the property's precondition)"],
        harnesses=[
            dict(name="VerifEscapeRoundTrip", bounds=dict(quick=dict(N=4), thorough=dict(N=6)), opts=dict(unwind=64)),
            dict(name="VerifNameRoundTrip", bounds=dict(quick=dict(N=6), thorough=dict(N=10)), opts=dict(unwind=64)),
        ],
    ),
    "C13": dict(
        pkg=TY,
        explanation="EscapedUTF16String/EncodeUTF16String then StringLiteralToString/HexLiteralToString executed symbolically on texts of K runes, each rune one SMT variable ranging over all 1,112,064 Unicode scalar values at once; decodeUTF16String on arbitrary well-formed UTF-16BE unit sequences",
        outside="texts longer than K runes; PDFDocEncoding fallback path for non-UTF-16 input",
        assumptions=["input text is valid Unicode (no surrogates, <= U+10FFFF), encoded by utf8.AppendRune"],
        harnesses=[
            dict(name="VerifUTF16LiteralRoundTrip", bounds=dict(quick=dict(K=1), thorough=dict(K=2)), opts=dict(unwind=64)),
            dict(name="VerifUTF16HexRoundTrip", bounds=dict(quick=dict(K=1), thorough=dict(K=2)), opts=dict(unwind=64)),
            dict(name="VerifUTF16DecodeTotal", bounds=dict(quick=dict(K=2), thorough=dict(K=3)), opts=dict(unwind=64)),
        ],
    ),
    "C14": dict(
        pkg=TY,
        explanation="DateString and strict DateTime executed symbolically: year, month, day, hour, minute, second and the zone offset in minutes are seven unconstrained 64-bit SMT variables restricted only by the property's ranges, so all years 0..9999 x all dates x all whole-minute offsets are covered by one query set; integer encoding with explicit wrap-around; the time package is a contract model (civil-field record)",
        outside="relaxed parsing, the time.Parse fall-backs, sub-second precision, the real time package's internals (replaced by the contract model: Date returns in-range fields unchanged, Date(y, m+1, 0).Day() = Gregorian month length)",
        assumptions=["time package contract model (engine/timemodel.go)", "fmt %d/%0Nd modelled by digit arithmetic"],
        # cvc5 1.0.3 answers unknown (120 s) on the "DateTime accepted" query; z3 5.1.0 decides every query (< 30 s)
        opts=dict(enc="int", solvers=["z3-new"], unwind=64, timeout_ms=120000),
        harnesses=[
            dict(name="VerifDateRoundTrip"),
        ],
    ),
    "C15": dict(
        pkg=FI,
        explanation="Filter.Encode then Filter.Decode executed symbolically on byte strings whose every byte is an SMT variable, for ASCIIHex and RunLength alone and in pipelines of up to PIPE filters, and for ASCII85 alone; run-structured RunLength inputs cross the 128-byte run boundary",
        outside="Flate and LZW compression cores (zlib / LZW writer are not encodable within reach: symbolic-index hash tables, Huffman coding), hence also Flate/LZW decode parameters on re-encoded streams; ASCII85 groups of 4+ fully symbolic bytes (solver unknown at 120 s in z3 5.1.0 and cvc5 1.0.3, both encodings); ASCII85 inside pipelines (the RunLength stage shifts by a symbolic amount, which the integer encoding ASCII85 needs does not express); pipelines longer than the bound; whole StreamDict re-encode",
        harnesses=[
            dict(name="VerifFilterRoundTrip", bounds=dict(quick=dict(N=3, PIPE=2), thorough=dict(N=5, PIPE=2)), opts=dict(unwind=300)),
            dict(name="VerifRunLengthRuns", opts=dict(unwind=600)),
            dict(name="VerifASCII85RoundTrip", bounds=dict(quick=dict(N=3), thorough=dict(N=3)), opts=dict(enc="int", solver="z3-new", timeout_ms=30000, workers=4, unwind=300)),
        ],
    ),
    "C16": dict(
        pkg=FI,
        explanation="Two decodings of the same ARBITRARY encoded input (every byte symbolic, not only encoder output) are compared in one harness: unlimited vs under a symbolic limit L, and vs bounded to a symbolic n; L and n range over [min,3] and [len-3,len+2] around the exact decoded length",
        outside="Flate/LZW decompressors themselves (the limit logic below them, copyDecoded/decodePostProcessRows, is driven with an arbitrary inflated stream); ASCII85; StreamDict-level truncation to exactly n bytes; encoded inputs longer than N bytes",
        assumptions=["limit L >= 1: 0 means 'default limit' and a negative value 'unlimited' (documented sentinels of baseFilter.decodeLimit)", "the Filter interface documents DecodeLength as 'at least maxLen bytes': the filter-level assertion is prefix-of-full with length >= min(n, len(full))"],
        harnesses=[
            dict(name="VerifLimitRunLength", bounds=dict(quick=dict(N=3), thorough=dict(N=3)), opts=dict(unwind=700)),
            dict(name="VerifLimitASCIIHex", bounds=dict(quick=dict(N=4), thorough=dict(N=5)), opts=dict(unwind=100)),
            dict(name="VerifLimitPredictorRows", bounds=dict(quick=dict(N=6, COLS=2), thorough=dict(N=8, COLS=2)), opts=dict(unwind=100)),
        ],
    ),
    "C17": dict(
        pkg=FI,
        explanation="processRow (PNG filters None/Sub/Up/Average/Paeth and TIFF predictor 2) is checked as an inductive step from an ARBITRARY reconstructed prior row against RFC 2083 section 6 / TIFF 6.0 section 14 references written in the harness, for every predictor, colours, bits per component and columns up to the bound, with all 256 filter-type bytes; the row loop of decodePostProcess is checked separately on R rows",
        outside="columns/colours beyond the bounds; the zlib/LZW decompressors feeding the rows",
        harnesses=[
            dict(name="VerifPredictorRow", bounds=dict(quick=dict(C=2, COLORS=3), thorough=dict(C=2, COLORS=3)), opts=dict(unwind=300, timeout_ms=60000)),
            dict(name="VerifPredictorRow", bounds=dict(quick=dict(C=3, COLORS=2), thorough=dict(C=3, COLORS=2)), opts=dict(unwind=300, timeout_ms=60000), thorough_only=True),
            dict(name="VerifPredictorDriver", bounds=dict(quick=dict(C=2, COLORS=2, R=2), thorough=dict(C=3, COLORS=3, R=3)), opts=dict(unwind=300)),
            dict(name="VerifPredictorLZW"),
        ],
    ),
    "C18": dict(
        pkg=PD,
        explanation="the writer's structural kernels executed symbolically, each checked by an independent non-repairing reader written in the harness: writeObject (recorded offset = position of the 'n g obj' header, running offset = bytes written) from a symbolic file position; writeXRefTable/writeXRefSubsection/writeTrailerDict (20-byte entries, subsections, startxref, every table entry exactly once) on an arbitrary small table; writeXRefStream/createXRefStream/int64ToBuf/writeStreamDictObject/writeStream (/W rows, /Index, own entry, /Size, /Length = byte count, startxref) with compression replaced by the identity; addObjectStreamObject/Finalize (prolog, offsets, token boundary between neighbours); EnsureValidFreeList from an arbitrary table with arbitrary (dangling, cyclic) links under every map-iteration starting point",
        outside="whole documents: the order and completeness of object writing, encryption, incremental updates, linearisation, the header/EOF lines, stream /Length of content/image streams (same writeStream kernel, different producers), offsets above the bounds; map iteration orders other than rotations of insertion order",
        assumptions=["offsets below 10^10 (the classic xref entry cannot represent more)", "object stream indices < 100 and generations <= 65535 (what the writer produces)"],
        harnesses=[
            dict(name="VerifObjectStreamLayout", bounds=dict(quick=dict(K=2, S=1, INTMAX=999), thorough=dict(K=2, S=1, INTMAX=99999)), opts=dict(unwind=300, wall_timeout=6000)),
            dict(name="VerifWriteObjectOffsets", bounds=dict(quick=dict(OBJMAX=99, GENMAX=9, S=1), thorough=dict(OBJMAX=999, GENMAX=99, S=2)), opts=dict(unwind=300, timeout_ms=60000)),
            dict(name="VerifXRefTableSection", bounds=dict(quick=dict(OBJ=2, OFFMAX=999), thorough=dict(OBJ=2, OFFMAX=9999)), opts=dict(unwind=400, enc="int", timeout_ms=60000)),
            dict(name="VerifXRefStreamSection", bounds=dict(quick=dict(OBJ=2, POSMAX=300), thorough=dict(OBJ=2, POSMAX=70000)), opts=dict(unwind=400, timeout_ms=60000)),
            dict(name="VerifStreamLengthAfterEncode", bounds=dict(quick=dict(S=2), thorough=dict(S=4)), opts=dict(unwind=300)),
            dict(name="VerifFreeList", pkg=MO, bounds=dict(quick=dict(OBJ=2), thorough=dict(OBJ=3)), opts=dict(unwind=100, maprotate=True, wall_timeout=6000)),
        ],
    ),
    "C20": dict(
        pkg=MO,
        explanation="model.EqualObjects (with equalDicts/equalArrays and one-level dereferencing through an XRefTable) executed symbolically on pairs of object trees of depth <= 2 (leaf, array or dict of <= W entries; leaf kinds null, Boolean, Integer, Name, StringLiteral, HexLiteral, indirect reference to a defined or undefined object) with symbolic leaf values: whenever it answers 'equal' an independent structural comparison must agree; consolidateResources (the accumulation of inherited page resources that the optimiser then prunes per page) never aliases a dictionary of the document, for every shape of inherited state and node resources (direct / indirect)",
        outside="that the whole optimisation pass preserves what the document shows; stream dictionaries and font dictionaries (font-name prefix rule); trees deeper than 2; cyclic reference graphs",
        harnesses=[dict(name="VerifEqualObjectsSound", bounds=dict(quick=dict(W=1), thorough=dict(W=2)), opts=dict(unwind=100), opts_thorough=dict(maxpaths=60000000, walltime=10000)),
                   dict(name="VerifConsolidateNoAliasing", opts=dict(unwind=200))],
    ),
    "C22": dict(
        pkg=PD,
        explanation="the byte-level cipher plumbing executed symbolically with the cipher CORES abstracted: encryptBytes/decryptBytes, encryptStream/decryptStream, encryptAESBytes/decryptAESBytes (padding, IV, CBC chaining through the real crypto/cipher CBC code), applyRC4CipherBytes/applyRC4Bytes (through cipher.StreamReader), decryptKey, and the object traversal encryptDeepObject/decryptDeepObject with encryptStringLiteral/HexLiteral (Unescape/Escape and hex codec of ciphertext): for every file key (all bytes symbolic), object number < 2^32, generation < 2^16, revision 2..6 / RC4-40, RC4-128, AES-128, AES-256 and every plaintext of the lengths around the block boundaries, decrypt(encrypt(x)) == x, ciphertext has the right shape, signature /Contents are exempt in both directions; decryptKey hashes exactly key || objNr[0..2] || gen[0..1] [|| sAlT] (ISO 32000-1 Algorithm 1) and refuses out-of-range numbers. AES, RC4 and MD5 are replaced under the engine by keyed xor pads / a toy hash (stubs of aes.NewCipher, rc4.NewCipher, (*rc4.Cipher).XORKeyStream, md5.New): a wrong key, wrong IV handling or wrong padding does not cancel and yields a counterexample",
        outside="the cipher and hash cores themselves (AES, RC4, MD5, SHA-2: S-box lookups at symbolic indices are out of reach), hence ciphertext values; whole documents (which objects are encrypted: writeObjects.go callers), password/key derivation (C24), permissions (C25/C26), plaintext longer than 33 bytes, IVs are arbitrary (fresh solver variables) in the byte harness and fixed in the object harness",
        assumptions=["AES-CBC and RC4 behave as keyed permutations / xor streams (the abstract ciphers used under the engine); natively the real ciphers run in the differential vectors and in replays"],
        harnesses=[
            dict(name="VerifCipherBytesRoundTrip", bounds=dict(quick=dict(N=17), thorough=dict(N=33)), opts=dict(unwind=300)),
            dict(name="VerifCipherObjectRoundTrip", bounds=dict(quick=dict(S=1), thorough=dict(S=2)), opts=dict(unwind=300, wall_timeout=6000)),
            dict(name="VerifObjectKeyInput", opts=dict(unwind=300)),
        ],
    ),
    "C23": dict(
        pkg=PD,
        explanation="the generic object writer with an encryption key set (writeObjectGeneric -> writeStringLiteralObject / writeHexLiteralObject / writeDictObject / writeArrayObject / writeDeepStreamDict + writeStreamDictObject + writeStream, sigDictPDFString) executed symbolically with the cipher cores abstracted as in C22: for every object kind (string, hex string, dictionary and array with nested strings, stream with a string in its dictionary, signature dictionary), symbolic string / stream bytes, RC4-40, revision 4 with every combination of RC4/AES for strings and streams, AES-256, the bytes written are parsed back by the strict object parser and decrypted with the same key and object number and must give the original strings and stream data; AES ciphertext must have the shape IV + whole blocks; /Length must be the number of stream bytes written; the /Contents of a signature dictionary must be written in the clear. A string or stream left in the clear, or encrypted under another key, decrypts to something else and is a counterexample",
        outside="whole documents: which objects reach writeObjectGeneric at all (object streams are encrypted as streams when they are written, checked for the stream path only), the identity crypt filter, unencrypted metadata (EncryptMetadata false), the xref stream (unencrypted by specification), embedded-file crypt filters; 'no plaintext' as a statement about real AES/RC4 output; strings longer than 1 byte, streams longer than 2 bytes",
        assumptions=["abstract ciphers as in C22 (pads are non-zero for the keys used, so an unencrypted string cannot decrypt to itself); natively the real ciphers run"],
        harnesses=[
            dict(name="VerifEncryptedWrite", opts=dict(unwind=2000, wall_timeout=6000)),
        ],
    ),
    "C25": dict(
        pkg=PD,
        explanation="setupEncryptionKey (the open/refuse decision) executed symbolically over all outcomes of the three cryptographic validators (symbolic booleans), every CommandMode value, all 2^32 permission words, R in 2..6 and password emptiness",
        outside="(the decision which passwords the new O/U entries are derived from IS checked: VerifPasswordChange runs updateEncryption with o/u/calcOAndU replaced by recorders, new passwords symbolic incl. empty) the cryptographic validators themselves (stubbed: validateOwnerPassword, validateUserPassword, validatePermissions, supportedEncryption); 'after a change only the new password works' needs the writer and reader end to end on whole documents and is NOT covered",
        assumptions=["stub contract: the validators return (ok, nil) and touch nothing else", "relaxed validation mode (a missing trailer /ID is tolerated)"],
        harnesses=[dict(name="VerifPasswordGate", opts=dict(unwind=200)),
                   dict(name="VerifPasswordChange", opts=dict(unwind=300))],
    ),
    "C26": dict(
        pkg=PD,
        explanation="handlePermissions/hasNeededPermissions/maskExtract/maskModify executed symbolically: command mode symbolic over the whole CommandMode range (the real perm table from the package initialiser), P over all 2^32 words, R in 2..6, owner password present or empty",
        outside="validatePermissions (AES-256 /Perms check, stubbed to succeed); whether a command really needs the rights pdfcpu's table assigns to it",
        assumptions=["bit layout as documented by pdfcpu: revision 2 extract=bit 5, modify=bit 4; revision >= 3 extract=bit 10, modify=bit 11"],
        harnesses=[dict(name="VerifPermissionGate", opts=dict(unwind=200))],
    ),
    "C27": dict(
        pkg=SG,
        explanation="signedData (the digest input of every signature handler) executed symbolically on an arbitrary file (all bytes symbolic), arbitrary /ByteRange integers and an arbitrary /Contents string: whenever it succeeds the returned bytes are exactly file[0:b] ++ file[c:c+d]; hence the digest input is an injective function of the covered bytes and any change of a covered byte changes the input of the message digest (second harness states this directly on two files)",
        outside="the sequencing inside the X.509/RSA and RFC 3161 handlers (the PKCS#7 handler's gate - digest, certificate and signature verdicts all positive before 'unmodified' - is checked by VerifP7DigestGate with the three verdicts as symbolic outcomes); the PKCS#7/CMS, X.509 and RFC 3161 verification themselves (collision resistance of the digest and correctness of crypto/... are assumptions); tampering with /Contents beyond the gap check; sample documents",
        assumptions=["range lengths and the second offset bounded by file length + 2 in the read harness (full 64-bit arithmetic is covered by VerifByteRangeArithmetic)"],
        harnesses=[
            dict(name="VerifSignedDataCoverage", bounds=dict(quick=dict(N=4, H=1), thorough=dict(N=6, H=2)), opts=dict(unwind=600)),
            dict(name="VerifSignedDataInjective", bounds=dict(quick=dict(N=3, H=0), thorough=dict(N=4, H=1)), opts=dict(unwind=600), thorough_only=True),
            dict(name="VerifByteRangeArithmetic"),
            dict(name="VerifP7DigestGate", opts=dict(unwind=300)),
        ],
    ),
    "C28": dict(
        pkg=SG,
        explanation="two gates that every 'document unmodified' verdict passes: (1) sign.signedData succeeds only if the ranges start at 0, do not overlap, lie inside the file and the excluded gap is exactly the '<hex>' of /Contents (all file bytes, range integers and /Contents symbolic); (2) pdfcpu.recordSignedRevisionBoundaryEvidence lets the handler run for a current-revision signature only if offset+length of the second range equals the file size (all 64-bit values symbolic), and applyHistoricalRevisionReporting never leaves DocModified=False for a signature of an earlier revision",
        outside="the sequencing inside validateSignature and the handlers (gate 2 precedes the handler, the handler calls signedData before any verdict) is established by reading, not by the solver; PKCS#7 verification; whole sample documents with incremental updates",
        harnesses=[
            dict(name="VerifSignedDataCoverage", bounds=dict(quick=dict(N=4, H=1), thorough=dict(N=6, H=2)), opts=dict(unwind=600)),
            dict(name="VerifByteRangeArithmetic"),
            dict(name="VerifRevisionBoundary", pkg=PD, opts=dict(unwind=100)),
            dict(name="VerifSignatureRevisionGate", pkg=PD, opts=dict(unwind=300)),
        ],
    ),
    "C30": dict(
        pkg=SG,
        explanation="revocationDialContext / validateRevocationIPs / revocationBlockedIP and the remote-image twins (rejectImageBoxIPs, imageBoxDialContext) executed symbolically with the resolver and dialer replaced by stubs: 1..K DNS answers, each a 4- or 16-byte address with every byte symbolic (IPv4-mapped IPv6 included), compared with an independent prefix classifier; URL rules (scheme symbolic up to 5 bytes, userinfo, host forms), redirect limit, and Proxy == nil of the constructed transports",
        outside="url.Parse and net/http's use of the DialContext / CheckRedirect hooks; address classes that are not in the property's list (0.0.0.0/8, broadcast, IPv4-compatible ::a.b.c.d); DNS rebinding between lookup and dial (the code dials the validated address)",
        assumptions=["the resolver returns addresses of length 4 or 16", "stubs: resolver, dialer, net.IP.String, url.URL.Redacted"],
        harnesses=[
            dict(name="VerifRevocationDial", bounds=dict(quick=dict(K=2), thorough=dict(K=3)), opts=dict(unwind=200), nodiff=True),
            dict(name="VerifRevocationURL", opts=dict(unwind=200), nodiff=True),
            dict(name="VerifRevocationClientNoProxy", nodiff=True),
            dict(name="VerifImageBoxIPs", pkg=PR, bounds=dict(quick=dict(K=2), thorough=dict(K=3)), opts=dict(unwind=200)),
            dict(name="VerifImageBoxDial", pkg=PR, bounds=dict(quick=dict(K=2), thorough=dict(K=3)), opts=dict(unwind=200), nodiff=True),
            dict(name="VerifImageBoxURL", pkg=PR, opts=dict(unwind=200), nodiff=True),
        ],
    ),
    "C31": dict(
        pkg=API,
        explanation="PagesForPageSelection / RemainingPagesForPageRemoval / PagesForPageCollection executed symbolically on selections generated from the grammar (13 term shapes x none/!/n, every number 1-2 symbolic decimal digits, so 0, values beyond the page count and reversed ranges are included) and compared with a left-to-right reference evaluator; the accepted syntax is decided as a regular-language equivalence between the real pattern (Go MatchString search semantics) and the documented grammar by z3's string theory (unbounded in string length)",
        outside="page counts above the bound P, more than T terms, numbers with more than two digits; Go's regexp engine itself (assumed to implement the pattern it is given); callers that skip ParsePageSelection",
        assumptions=["regexp/syntax parse tree -> SMT RegLan translation (engine/regexmodel.go); anchors only at branch edges"],
        harnesses=[
            dict(name="VerifPageSelection", bounds=dict(quick=dict(P=6, T=1), thorough=dict(P=12, T=1)), opts=dict(unwind=100)),
            dict(name="VerifPageSelection", bounds=dict(quick=dict(P=1, T=2), thorough=dict(P=2, T=2)), opts=dict(unwind=100), nodiff=True),
            dict(name="VerifPageSelectionEvenOdd", bounds=dict(quick=dict(P=4), thorough=dict(P=8)), opts=dict(unwind=100)),
            dict(name="VerifPageRemoval", bounds=dict(quick=dict(P=4), thorough=dict(P=8)), opts=dict(unwind=100)),
            dict(name="VerifPageCollection", bounds=dict(quick=dict(P=4, T=1), thorough=dict(P=2, T=2)), opts=dict(unwind=100)),
            dict(name="VerifPageSelectionSyntax", opts=dict(workers=1)),
        ],
    ),
    "C33": dict(
        pkg=API,
        explanation="the arithmetic that decides which pages go where, executed symbolically with the page extraction itself replaced by a recorder: pageSpans and writePageSpans (page count 1..P, span any integer: refused iff <= 0, otherwise consecutive spans of exactly span pages, last possibly shorter, that partition 1..PageCount), writePageSpansSplitAlongPages + validateSplitPageNumbers (lists of 0..K symbolic page numbers, any order / duplicates / out of range: refused, or a partition of 1..PageCount whose parts start exactly at the listed pages), PagesForPageRange; for merging, the object renumbering lookupTable / patchObject / patchDict / patchArray / patchObjects (K symbolic distinct source numbers, symbolic destination size: injective onto size..size+K-1, exactly the references to source objects rewritten, generation kept) under every map-iteration starting point",
        outside="ExtractPages, the zip-mode page-tree surgery (InsertPages/AppendPages) and divider pages (append mode without divider IS checked: VerifMergeAppendPageTree appends one or two sources of 1..P pages to a destination whose root carries any subset of the inheritable attributes and walks the resulting tree), bookmark splits, i.e. that the pages of a span ARE the original pages and that merged page trees list the pages in order: whole-document object graphs",
        harnesses=[
            dict(name="VerifSplitSpans", bounds=dict(quick=dict(P=12), thorough=dict(P=31)), opts=dict(unwind=300)),
            dict(name="VerifSplitSpansFiles", bounds=dict(quick=dict(P=12), thorough=dict(P=31)), opts=dict(unwind=300)),
            dict(name="VerifSplitAlongPages", bounds=dict(quick=dict(P=8, K=3), thorough=dict(P=16, K=3)), opts=dict(unwind=300)),
            dict(name="VerifMergeAppendPageTree", pkg=PD, bounds=dict(quick=dict(P=2), thorough=dict(P=3)), opts=dict(unwind=300)),
            dict(name="VerifMergeRenumbering", pkg=PD, bounds=dict(quick=dict(K=3), thorough=dict(K=4)), opts=dict(unwind=300, maprotate=True)),
        ],
    ),
    "C34": dict(
        pkg=PD,
        explanation="booklet slot functions (nup2/nup4 basic+advanced+top fold/LRTB/nup8/perfect bound) evaluated on SYMBOLIC slot indices i != j: in range and injective, hence a bijection of [0,n) (pigeonhole is the one step outside the solver), for every type x binding x orientation x N in {2,4,6,8} and every padded page count up to SHEETS sheets; the driver getBookletOrdering is run for every configuration that api.validateBookletLayout accepts, multi folio with folio sizes 0..12 included",
        outside="page counts above the bounds; n-up / grid placement (impositionPages) and the rendering of pages into slots; image booklets",
        harnesses=[
            dict(name="VerifBookletSlots", bounds=dict(quick=dict(SHEETS=3), thorough=dict(SHEETS=13)), opts=dict(unwind=500)),
            dict(name="VerifBookletSlotFunction", bounds=dict(quick=dict(SHEETS=2), thorough=dict(SHEETS=6)), opts=dict(unwind=500)),
            dict(name="VerifBookletAccepted", pkg=API, bounds=dict(quick=dict(M=40), thorough=dict(M=200)), opts=dict(unwind=500)),
        ],
    ),
    "C36": dict(
        pkg=PD,
        opts=dict(unwind_violation=True),
        explanation="the half of the property that quantifies over ALL outlines - reading terminates, also on cyclic ones - executed symbolically: BookmarksForOutlineItem / bookmarksForOutlineItem / outlineItemDict / checkBookmarkCycle / checkBookmarkRecursionDepth / outlineItemDestination / title / bookmark on an arbitrary outline graph over ITEMS items (every /Next and /First absent or a reference to any item, as solver variables: chains, trees, self references, cycles through First and/or Next, shared kids; titled or untitled; symbolic target pages). The reader must return - the unwinding bound and the call-depth limit of the engine make non-termination a violation - with ErrCircularBookmarks exactly when an item is reachable twice (compared with a reference walk), and otherwise with the titled items of each Next chain in order, target pages and PageThru as documented",
        outside="the export -> JSON -> import -> export round trip (encoding/json reflection, whole documents), titles, colours and styles beyond their presence, PageNrFromDestination (stubbed: the destination of item k maps to a symbolic page), outlines of more than ITEMS items",
        harnesses=[
            dict(name="VerifBookmarkTraversal", bounds=dict(quick=dict(ITEMS=3), thorough=dict(ITEMS=4)), opts=dict(unwind=300, wall_timeout=6000)),
        ],
    ),
    "C39": dict(
        pkg=MO,
        explanation="Node.Add / HandleLeaf / insertIntoLeaf / updateNameTreeLimits / Node.Remove / removeFromLeaf / removeFromKids / Node.Value executed symbolically on histories of I inserts then R removals with symbolic 1-byte keys on an empty tree (maxEntries = 3: the 4th distinct key splits the leaf); the solver enumerates every feasible ordering/equality pattern of the keys; after each operation: keys strictly ascending, node limits = min/max below, lookups = reference association list",
        outside="histories longer than the bounds, keys longer than one byte (ordering is lexicographic: one byte exercises every comparison outcome), trees read from documents, NameMap renaming of duplicate keys, writing and re-reading the tree",
        harnesses=[dict(name="VerifNameTreeHistory", bounds=dict(quick=dict(I=5, R=1), thorough=dict(I=5, R=1)), opts=dict(unwind=200)),
                   dict(name="VerifNameTreeForeignShape", bounds=dict(quick=dict(KIDS=3), thorough=dict(KIDS=3)), opts=dict(unwind=200))],
    ),
    "C42": dict(
        pkg=SM,
        level="model_checking",
        explanation="AddInt/MultiplyInt/MultiplyInt64 executed symbolically from go/ssa; both operands are unconstrained 64-bit symbolic values; reference = 128-bit product / 65-bit sum",
        outside="32-bit int (GOARCH=386) is not analysed; only the three exported functions",
        assumptions=["int is 64 bits (amd64 type sizes)"],
        harnesses=[
            dict(name="VerifAddInt", opts=dict(enc="bv", solvers=["z3-new", "cvc5"])),
            dict(name="VerifAddInt", opts=dict(enc="int", solvers=["cvc5"]), thorough_only=True, nodiff=True),
            dict(name="VerifMultiplyInt", opts=dict(enc="int", solvers=["cvc5", "z3-new"])),
            dict(name="VerifMultiplyInt64", opts=dict(enc="int", solvers=["cvc5", "z3-new"])),
            dict(name="VerifSelfTestErrors", nodiff=False),  # engine self-test: fmt.Errorf / errors.Is / Sprintf models
        ],
    ),
}
