"""Registry of harness instances per property (read by check.py)."""

SM = "./pkg/pdfcpu/safemath"

PROPS = {
    "C42": dict(
        pkg=SM,
        level="model_checking",
        explanation="AddInt/MultiplyInt/MultiplyInt64 executed symbolically from go/ssa; both operands are unconstrained 64-bit symbolic values; reference = 128-bit product / 65-bit sum",
        outside="32-bit int (GOARCH=386) is not analysed; only the three exported functions",
        assumptions=["int is 64 bits (amd64 type sizes)"],
        harnesses=[
            dict(name="VerifAddInt", opts=dict(enc="bv", solvers=["z3-new", "cvc5"])),
            dict(name="VerifAddInt", opts=dict(enc="int", solvers=["cvc5"]), thorough_only=True, nodiff=True),
            dict(name="VerifMultiplyInt", opts=dict(enc="int", solvers=["cvc5", "z3-new"])),
            dict(name="VerifMultiplyInt64", opts=dict(enc="int", solvers=["cvc5", "z3-new"])),
        ],
    ),
}
