#!/bin/sh
# Builds the symbolic engine offline from /verif/engine (x/tools v0.50.0 from the module cache, go1.26.8).
set -e
cd "$(dirname "$0")/../engine"
export PATH=/opt/veriftools/go1.26.8/bin:$PATH GOFLAGS=-mod=mod GOPROXY=off GOTOOLCHAIN=local
mkdir -p ../bin
go build -o ../bin/gosym .
echo "gosym built"
