#!/usr/bin/env python3
"""Regenerates MANIFEST.json from checks/props.py and checks/na.py."""
import json, os, sys
ROOT = os.path.dirname(os.path.dirname(os.path.abspath(__file__)))
sys.path.insert(0, os.path.join(ROOT, "checks"))
import props, na

allp = [json.loads(l) for l in open(os.path.join(ROOT, "properties.jsonl"))]
baseline = json.load(open("/root/.vp/BASELINE.json"))["cmd"] if os.path.exists("/root/.vp/BASELINE.json") else json.load(open(os.path.join(ROOT, "MANIFEST.json")))["hooks"]["baseline_off_cmd"]
checks = []
for p in allp:
    pid = p["id"]
    if pid not in props.PROPS or props.PROPS[pid].get("disabled"):
        continue
    s = props.PROPS[pid]
    checks.append(dict(
        property_id=pid,
        quick_cmd=f"bin/check {pid} --tier quick",
        thorough_cmd=f"bin/check {pid} --tier thorough",
        evidence_file=f"evidence/{pid}.json",
        replay_cmd_template="bin/check replay {path}",
        engine="gosym",
        level_claimed=dict(category=s.get("level", "model_checking"),
                           text=s.get("level_text", "Bounded symbolic execution of the real functions (go/ssa of the current tree) with an SMT solver deciding every branch and assertion: the property holds for every input within the stated bounds, or a concrete counterexample is replayed natively. " + s.get("explanation", "")),
                           design_ref="DESIGN.md section 6, " + pid),
        level_note="Trusted: go/ssa lowering, the gosym interpreter (validated on each run by native-vs-engine differential runs), the listed stubs/intrinsics, z3 5.1.0 / cvc5 1.0.3. Outside the claim: " + s.get("outside", "inputs beyond the stated bounds"),
        technique="bounded symbolic execution of go/ssa + SMT (z3 5.1.0, cvc5 1.0.3), counterexamples replayed natively",
    ))
claimed = {c["property_id"] for c in checks}
nas = []
for p in allp:
    if p["id"] in claimed:
        continue
    nas.append(dict(property_id=p["id"], reason=na.NA.get(p["id"], "check not built yet (see DESIGN.md section 6/7)")))
m = dict(
    version=1,
    setup_cmd="sh tools/setup.sh",
    hooks=dict(guard="verif", enable="no repo changes: harness files under /verif/harness are injected into /repo's packages by build overlay (go/packages Overlay for the engine, go test -overlay for native replay)",
               baseline_off_cmd=baseline, source_commits=[], add_only=True),
    engines=[dict(name="gosym", path="engine", serves_properties=sorted(claimed), kind_free_text="forking symbolic interpreter over go/ssa (re-execution based path exploration) with SMT-LIB2 back ends z3 5.1.0 and cvc5 1.0.3; bit-vector and wrap-around integer encodings")],
    checks=checks,
    notes="See DESIGN.md. Exit codes of every check: 0 held / 1 replayed VIOLATION / 2 inconclusive (never a VIOLATION line).",
    not_applicable=nas,
)
json.dump(m, open(os.path.join(ROOT, "MANIFEST.json"), "w"), indent=1)
print("claimed:", sorted(claimed))
