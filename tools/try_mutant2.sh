#!/bin/bash
# usage: try_mutant2.sh <PROP> <name> <outdir with patch.diff, zz_demo_test.go, meta.json> <scratch worktree>
# Like try_mutant.sh but never touches /repo: the check runs against the scratch worktree
# (VERIF_REPO) and writes its evidence/replays to a scratch directory (VERIF_OUTROOT).
set -u
PROP=$1; NAME=$2; OUT=$3; WT=$4
export PATH=/opt/veriftools/go1.26.8/bin:$PATH GOFLAGS=-mod=mod GOPROXY=off GOTOOLCHAIN=local
DEST=/verif/seeded/$NAME
mkdir -p $DEST
cp $OUT/patch.diff $OUT/meta.json $DEST/ 2>/dev/null
cp $OUT/zz_demo_test.go $DEST/zz_demo_test.go.txt 2>/dev/null
DEMODIR=$(python3 -c "import json;print(json.load(open('$OUT/meta.json'))['demo_dir'])")
cd $WT || exit 2
git checkout -q -- . ; git clean -fdq
cp $OUT/zz_demo_test.go $WT/$DEMODIR/zz_demo_test.go
go test -vet=off -count=1 -run 'Demo' ./$DEMODIR/ > $DEST/demo_without.log 2>&1; W0=$?
git apply $OUT/patch.diff || { echo "patch does not apply"; exit 2; }
go build ./... > $DEST/build.log 2>&1; B=$?
go test -vet=off -count=1 -run 'Demo' ./$DEMODIR/ > $DEST/demo_with.log 2>&1; W1=$?
rm -f $WT/$DEMODIR/zz_demo_test.go
PKGS=$(git diff --name-only | xargs -n1 dirname | sort -u | sed 's#^#./#')
go test -vet=off -count=1 $PKGS > $DEST/existing_tests.log 2>&1; T=$?
echo "demo without change exit=$W0 (want 0); with change exit=$W1 (want !=0); build=$B; existing tests exit=$T"
SCR=/var/tmp/mutcheck_$NAME; mkdir -p $SCR
cd /verif && VERIF_REPO=$WT VERIF_OUTROOT=$SCR timeout 3000 bin/check $PROP --tier quick > $DEST/check.log 2>&1; C=$?
rm -rf $SCR
cd $WT && git checkout -q -- . ; git clean -fdq
echo "check exit=$C"; grep -c "^VIOLATION" $DEST/check.log
python3 - <<PY
import json
m=json.load(open('$DEST/meta.json'))
m.update(confirmed=dict(demo_passes_without_change=($W0==0), demo_fails_with_change=($W1!=0), builds=($B==0), existing_tests_pass=($T==0)),
         check=dict(command='bin/check $PROP --tier quick', exit=$C, detected=($C==1)))
json.dump(m,open('$DEST/meta.json','w'),indent=1)
PY
