package main

// One long-lived SMT solver process (z3 -in / cvc5 --incremental) driven over pipes.

import (
	"bufio"
	"fmt"
	"io"
	"math/big"
	"os"
	"os/exec"
	"strings"
	"time"
)

type SatResult int

const (
	Unsat SatResult = iota
	Sat
	Unknown
)

func (r SatResult) String() string { return [...]string{"unsat", "sat", "unknown"}[r] }

type Solver struct {
	name    string
	cmd     *exec.Cmd
	in      io.WriteCloser
	out     *bufio.Reader
	enc     Encoding
	elapsed time.Duration
	queries int
	log     io.Writer
	dead    bool
	level   int
}

type solverError struct{ msg string }

func (e solverError) Error() string { return e.msg }

func solverArgs(kind string, timeoutMs int) (string, []string) {
	switch kind {
	case "z3":
		return "z3", []string{"-in", fmt.Sprintf("-t:%d", timeoutMs)}
	case "cvc5":
		return "cvc5", []string{"--incremental", "--produce-models", fmt.Sprintf("--tlimit-per=%d", timeoutMs)}
	case "cvc5-bvint":
		return "cvc5", []string{"--incremental", "--produce-models", "--solve-bv-as-int=sum", fmt.Sprintf("--tlimit-per=%d", timeoutMs)}
	default: // z3-new
		return "z3-new", []string{"-in", fmt.Sprintf("-t:%d", timeoutMs)}
	}
}

func NewSolver(kind string, enc Encoding, timeoutMs int, logPath string) (*Solver, error) {
	bin, args := solverArgs(kind, timeoutMs)
	cmd := exec.Command(bin, args...)
	in, err := cmd.StdinPipe()
	if err != nil {
		return nil, err
	}
	out, err := cmd.StdoutPipe()
	if err != nil {
		return nil, err
	}
	cmd.Stderr = os.Stderr
	if err := cmd.Start(); err != nil {
		return nil, err
	}
	s := &Solver{name: kind, cmd: cmd, in: in, out: bufio.NewReaderSize(out, 1<<16), enc: enc}
	if logPath != "" {
		f, err := os.Create(logPath)
		if err == nil {
			s.log = f
		}
	}
	s.send("(set-option :produce-models true)")
	if strings.HasPrefix(kind, "cvc5") {
		s.send("(set-logic ALL)")
	}
	return s, nil
}

func (s *Solver) send(line string) {
	if s.log != nil {
		fmt.Fprintln(s.log, line)
	}
	if _, err := io.WriteString(s.in, line+"\n"); err != nil {
		s.dead = true
		panic(solverError{"solver write: " + err.Error()})
	}
}

func (s *Solver) readLine() string {
	line, err := s.out.ReadString('\n')
	if err != nil {
		s.dead = true
		panic(solverError{"solver read: " + err.Error()})
	}
	line = strings.TrimSpace(line)
	if s.log != nil {
		fmt.Fprintln(s.log, "; <- "+line)
	}
	if strings.HasPrefix(line, "(error") {
		panic(solverError{"solver reported: " + line})
	}
	return line
}

func (s *Solver) Push() { s.send("(push 1)"); s.level++ }
func (s *Solver) Pop()  { s.send("(pop 1)"); s.level-- }
func (s *Solver) PopTo(level int) {
	if s.level > level {
		s.send(fmt.Sprintf("(pop %d)", s.level-level))
		s.level = level
	}
}

func (s *Solver) Declare(v *Term) { s.send(declVar(v, s.enc)) }

func (s *Solver) Assert(t *Term) {
	s.send("(assert " + smtTerm(t, s.enc) + ")")
}

func (s *Solver) Check() SatResult {
	t0 := time.Now()
	s.send("(check-sat)")
	line := s.readLine()
	s.elapsed += time.Since(t0)
	s.queries++
	switch line {
	case "sat":
		return Sat
	case "unsat":
		return Unsat
	case "unknown", "timeout":
		return Unknown
	}
	panic(solverError{"unexpected solver answer: " + line})
}

// GetValues returns the model values of the given variables (after a Sat answer).
func (s *Solver) GetValues(vars []*Term) map[string]*big.Int {
	res := map[string]*big.Int{}
	if len(vars) == 0 {
		return res
	}
	const chunk = 200
	for i := 0; i < len(vars); i += chunk {
		j := i + chunk
		if j > len(vars) {
			j = len(vars)
		}
		var sb strings.Builder
		sb.WriteString("(get-value (")
		for _, v := range vars[i:j] {
			sb.WriteString(v.name)
			sb.WriteString(" ")
		}
		sb.WriteString("))")
		s.send(sb.String())
		// read balanced s-expression
		text := s.readSexp()
		parseValues(text, res)
	}
	return res
}

func (s *Solver) readSexp() string {
	var sb strings.Builder
	depth := 0
	started := false
	for {
		line := s.readLine()
		sb.WriteString(line)
		sb.WriteString(" ")
		for _, ch := range line {
			if ch == '(' {
				depth++
				started = true
			} else if ch == ')' {
				depth--
			}
		}
		if started && depth <= 0 {
			break
		}
	}
	return sb.String()
}

// parseValues parses ((name value) ...) where value is #x.., #b.., numeral, (- n), true, false, (_ bvN w)
func parseValues(text string, res map[string]*big.Int) {
	toks := tokenize(text)
	// skip first "("
	i := 1
	for i < len(toks) && toks[i] == "(" {
		name := toks[i+1]
		i += 2
		var v *big.Int
		v, i = parseValue(toks, i)
		res[name] = v
		if toks[i] != ")" {
			panic(solverError{"model parse: expected ) in " + text})
		}
		i++
	}
}

func parseValue(toks []string, i int) (*big.Int, int) {
	t := toks[i]
	switch {
	case t == "true":
		return big.NewInt(1), i + 1
	case t == "false":
		return big.NewInt(0), i + 1
	case strings.HasPrefix(t, "#x"):
		v, _ := new(big.Int).SetString(t[2:], 16)
		return v, i + 1
	case strings.HasPrefix(t, "#b"):
		v, _ := new(big.Int).SetString(t[2:], 2)
		return v, i + 1
	case t == "(":
		if toks[i+1] == "-" {
			v, j := parseValue(toks, i+2)
			return new(big.Int).Neg(v), j + 1
		}
		if toks[i+1] == "_" && strings.HasPrefix(toks[i+2], "bv") {
			v, _ := new(big.Int).SetString(toks[i+2][2:], 10)
			return v, i + 5
		}
		panic(solverError{"model parse: unexpected value " + strings.Join(toks[i:], " ")})
	default:
		v, ok := new(big.Int).SetString(t, 10)
		if !ok {
			panic(solverError{"model parse: bad numeral " + t})
		}
		return v, i + 1
	}
}

func tokenize(s string) []string {
	var toks []string
	cur := strings.Builder{}
	flush := func() {
		if cur.Len() > 0 {
			toks = append(toks, cur.String())
			cur.Reset()
		}
	}
	for _, ch := range s {
		switch ch {
		case '(', ')':
			flush()
			toks = append(toks, string(ch))
		case ' ', '\t', '\n', '\r':
			flush()
		default:
			cur.WriteRune(ch)
		}
	}
	flush()
	return toks
}

func (s *Solver) Close() {
	if s.cmd != nil && s.cmd.Process != nil {
		s.in.Close()
		s.cmd.Process.Kill()
		s.cmd.Wait()
	}
}
