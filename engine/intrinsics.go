package main

import (
	"fmt"
	"go/types"
	"math"
	"math/big"
	"net"
	"runtime"
	"strings"
	"unsafe"

	"golang.org/x/tools/go/ssa"
)

type intrinsicFn func(e *Exec, fr *frame, fn *ssa.Function, args []Value) Value

const vpPath = "github.com/pdfcpu/pdfcpu/internal/zzverif/vp"
const rtPath = "github.com/pdfcpu/pdfcpu/internal/zzverif/rt"

func runtimeStack(buf []byte) int { return runtime.Stack(buf, false) }

func (e *Exec) freshVar(kind string, w int) *Term {
	i := len(e.draws)
	if e.eng.conf.Concrete != nil {
		v := e.eng.conf.Concrete.next(e, kind, w)
		t := mkConst(w, v)
		e.draws = append(e.draws, Draw{Kind: kind, W: w, Val: fmt.Sprint(v), term: t})
		return t
	}
	var t *Term
	if w == 0 {
		t = e.ctx.Var(fmt.Sprintf("d%d", i), BoolSort)
	} else {
		t = e.ctx.Var(fmt.Sprintf("d%d", i), BV(w))
	}
	e.draws = append(e.draws, Draw{Kind: kind, W: w, term: t})
	return t
}

func strArg(e *Exec, fr *frame, v Value) string {
	s, ok := v.(Str)
	if !ok || !s.IsConc() {
		e.unsupported(fr, "expected concrete string argument, got %s", describe(v))
	}
	return s.s
}

func (eng *Engine) registerIntrinsics() {
	in := map[string]intrinsicFn{}
	eng.intrinsics = in
	vp := func(name string, f intrinsicFn) { in[vpPath+"."+name] = f }

	bvDraw := func(kind string, w int) intrinsicFn {
		return func(e *Exec, fr *frame, fn *ssa.Function, args []Value) Value { return e.freshVar(kind, w) }
	}
	vp("Byte", bvDraw("u8", 8))
	vp("Uint8", bvDraw("u8", 8))
	vp("Int8", bvDraw("i8", 8))
	vp("Uint16", bvDraw("u16", 16))
	vp("Int16", bvDraw("i16", 16))
	vp("Uint32", bvDraw("u32", 32))
	vp("Int32", bvDraw("i32", 32))
	vp("Rune", bvDraw("i32", 32))
	vp("Uint64", bvDraw("u64", 64))
	vp("Int64", bvDraw("i64", 64))
	vp("Int", bvDraw("i64", 64))
	vp("Uint", bvDraw("u64", 64))
	vp("Bool", bvDraw("bool", 0))
	vp("Bytes", func(e *Exec, fr *frame, fn *ssa.Function, args []Value) Value {
		n := e.concreteInt(fr, args[0], "vp.Bytes length")
		v := make([]Value, n)
		for i := range v {
			v[i] = e.freshVar("u8", 8)
		}
		return Slice{v: v}
	})
	vp("String", func(e *Exec, fr *frame, fn *ssa.Function, args []Value) Value {
		n := e.concreteInt(fr, args[0], "vp.String length")
		ts := make([]*Term, n)
		for i := range ts {
			ts[i] = e.freshVar("u8", 8)
		}
		return strFromTerms(ts)
	})
	vp("IntIn", func(e *Exec, fr *frame, fn *ssa.Function, args []Value) Value {
		lo, hi := args[0].(*Term), args[1].(*Term)
		v := e.freshVar("i64", 64)
		c := e.ctx
		in := c.And(c.Cmp(OpSLe, lo, v), c.Cmp(OpSLe, v, hi))
		if in.IsConst() {
			if !in.BoolVal() {
				e.abort("assume", "IntIn value outside range")
			}
			return v
		}
		if e.checkWith(in) == Unsat {
			e.abort("assume", "IntIn range empty")
		}
		e.assertPC(in)
		return v
	})
	vp("IntRange", func(e *Exec, fr *frame, fn *ssa.Function, args []Value) Value {
		lo := e.concreteInt(fr, args[0], "vp.IntRange lo")
		hi := e.concreteInt(fr, args[1], "vp.IntRange hi")
		var v int64
		if e.eng.conf.Concrete != nil {
			v = int64(e.eng.conf.Concrete.next(e, "choice", 64))
			if v < lo || v > hi {
				e.abort("assume", "replayed choice %d outside [%d,%d]", v, lo, hi)
			}
		} else {
			v = e.choice(lo, hi)
		}
		e.draws = append(e.draws, Draw{Kind: "choice", W: 64, Val: fmt.Sprint(uint64(v))})
		return mkConst(64, uint64(v))
	})
	vp("Choice", func(e *Exec, fr *frame, fn *ssa.Function, args []Value) Value {
		n := e.concreteInt(fr, args[0], "vp.Choice n")
		var v int64
		if e.eng.conf.Concrete != nil {
			v = int64(e.eng.conf.Concrete.next(e, "choice", 64))
			if v < 0 || v >= n {
				e.abort("assume", "replayed choice %d outside [0,%d)", v, n)
			}
		} else {
			v = e.choice(0, n-1)
		}
		e.draws = append(e.draws, Draw{Kind: "choice", W: 64, Val: fmt.Sprint(uint64(v))})
		return mkConst(64, uint64(v))
	})
	vp("Concretize", func(e *Exec, fr *frame, fn *ssa.Function, args []Value) Value {
		v := e.concreteInt(fr, args[0], "vp.Concretize")
		return mkConst(64, uint64(v))
	})
	vp("Bound", func(e *Exec, fr *frame, fn *ssa.Function, args []Value) Value {
		name := strArg(e, fr, args[0])
		v, ok := e.eng.conf.Bounds[name]
		if !ok {
			e.abort("error", "bound %q not supplied", name)
		}
		return mkConst(64, uint64(int64(v)))
	})
	vp("Assume", func(e *Exec, fr *frame, fn *ssa.Function, args []Value) Value {
		cond := args[0].(*Term)
		if cond.IsConst() {
			if !cond.BoolVal() {
				e.abort("assume", "assumption false at %s", fr.pos())
			}
			return nil
		}
		r := e.checkWith(cond)
		e.countFeas(r)
		if r == Unsat {
			e.abort("assume", "assumption unsatisfiable at %s", fr.pos())
		}
		e.assertPC(cond)
		return nil
	})
	vp("Assert", func(e *Exec, fr *frame, fn *ssa.Function, args []Value) Value {
		e.vpAssert(fr, args[0].(*Term), strArg(e, fr, args[1]))
		return nil
	})
	vp("Known", func(e *Exec, fr *frame, fn *ssa.Function, args []Value) Value {
		id := strArg(e, fr, args[0])
		if e.eng.conf.KnownOpen[id] {
			e.known = append(e.known, knownPred{id, args[1].(*Term)})
		}
		return nil
	})
	vp("Observe", func(e *Exec, fr *frame, fn *ssa.Function, args []Value) Value {
		name := strArg(e, fr, args[0])
		e.observes = append(e.observes, name+"="+e.observeString(args[1]))
		return nil
	})
	vp("And", func(e *Exec, fr *frame, fn *ssa.Function, args []Value) Value {
		return e.ctx.And(args[0].(*Term), args[1].(*Term))
	})
	vp("Or", func(e *Exec, fr *frame, fn *ssa.Function, args []Value) Value {
		return e.ctx.Or(args[0].(*Term), args[1].(*Term))
	})
	vp("Implies", func(e *Exec, fr *frame, fn *ssa.Function, args []Value) Value {
		return e.ctx.Implies(args[0].(*Term), args[1].(*Term))
	})
	vp("IteInt", func(e *Exec, fr *frame, fn *ssa.Function, args []Value) Value {
		return e.ctx.Ite(args[0].(*Term), args[1].(*Term), args[2].(*Term))
	})
	vp("IteByte", func(e *Exec, fr *frame, fn *ssa.Function, args []Value) Value {
		return e.ctx.Ite(args[0].(*Term), args[1].(*Term), args[2].(*Term))
	})
	vp("Fork", func(e *Exec, fr *frame, fn *ssa.Function, args []Value) Value {
		return mkBool(e.branch(fr, args[0].(*Term)))
	})
	vp("Stop", func(e *Exec, fr *frame, fn *ssa.Function, args []Value) Value {
		e.abort("ok", "path stopped by the harness")
		return nil
	})
	vp("ConcreteRandom", func(e *Exec, fr *frame, fn *ssa.Function, args []Value) Value {
		e.local["randconcrete"] = args[0].(*Term).BoolVal()
		return nil
	})
	vp("Symbolic", func(e *Exec, fr *frame, fn *ssa.Function, args []Value) Value {
		return mkBool(e.eng.conf.Concrete == nil)
	})
	vp("Unsupported", func(e *Exec, fr *frame, fn *ssa.Function, args []Value) Value {
		e.unsupported(fr, "harness: %s", strArg(e, fr, args[0]))
		return nil
	})

	// --- runtime-ish ---
	ident := func(e *Exec, fr *frame, fn *ssa.Function, args []Value) Value { return args[0] }
	nop := func(e *Exec, fr *frame, fn *ssa.Function, args []Value) Value { return nil }
	in["internal/abi.NoEscape"] = ident
	in["internal/abi.Escape"] = ident
	in["runtime.KeepAlive"] = nop
	in["runtime.SetFinalizer"] = nop
	in["runtime.Gosched"] = nop
	in["runtime.GC"] = nop
	in["(*strings.Builder).copyCheck"] = nop
	in["(*strings.Builder).String"] = func(e *Exec, fr *frame, fn *ssa.Function, args []Value) Value {
		p := args[0].(Ptr)
		st := (*p.p).(Struct)
		// fields: addr *Builder, buf []byte
		buf := st[1].(Slice)
		ts := make([]*Term, len(buf.v))
		for i, v := range buf.v {
			ts[i] = v.(*Term)
		}
		return strFromTerms(ts)
	}
	in["strings.Clone"] = ident
	in["internal/stringslite.Clone"] = ident
	in["bytes.Clone"] = func(e *Exec, fr *frame, fn *ssa.Function, args []Value) Value {
		s := args[0].(Slice)
		if s.nil {
			return s
		}
		nv := make([]Value, len(s.v))
		copy(nv, s.v)
		return Slice{v: nv}
	}
	in["internal/bytealg.MakeNoZero"] = func(e *Exec, fr *frame, fn *ssa.Function, args []Value) Value {
		n := e.concreteInt(fr, args[0], "MakeNoZero")
		if n > int64(e.eng.conf.MaxAlloc) {
			e.abort("alloc", "MakeNoZero(%d) exceeds engine allocation cap", n)
		}
		v := make([]Value, n)
		for i := range v {
			v[i] = byteConsts[0]
		}
		return Slice{v: v}
	}
	// FIPS 140 mode is off (GODEBUG fips140 unset): the switches read runtime/godebug state
	for _, name := range []string{"crypto/fips140.Enforced", "crypto/fips140.Enabled", "crypto/internal/fips140only.Enforced"} {
		in[name] = func(e *Exec, fr *frame, fn *ssa.Function, args []Value) Value { return globalFalse }
	}
	// crypto/internal/fips140/alias: overlap tests on the backing arrays of two byte slices (the engine's
	// slices share Go backing arrays exactly as the program's do)
	anyOverlap := func(x, y Slice) bool {
		if len(x.v) == 0 || len(y.v) == 0 {
			return false
		}
		x0, x1 := uintptr(unsafe.Pointer(&x.v[0])), uintptr(unsafe.Pointer(&x.v[len(x.v)-1]))
		y0, y1 := uintptr(unsafe.Pointer(&y.v[0])), uintptr(unsafe.Pointer(&y.v[len(y.v)-1]))
		return x0 <= y1 && y0 <= x1
	}
	in["crypto/internal/fips140/alias.AnyOverlap"] = func(e *Exec, fr *frame, fn *ssa.Function, args []Value) Value {
		return mkBool(anyOverlap(args[0].(Slice), args[1].(Slice)))
	}
	in["crypto/internal/fips140/alias.InexactOverlap"] = func(e *Exec, fr *frame, fn *ssa.Function, args []Value) Value {
		x, y := args[0].(Slice), args[1].(Slice)
		if len(x.v) == 0 || len(y.v) == 0 || &x.v[0] == &y.v[0] {
			return globalFalse
		}
		return mkBool(anyOverlap(x, y))
	}
	in["crypto/internal/fips140/subtle.xorBytes"] = func(e *Exec, fr *frame, fn *ssa.Function, args []Value) Value {
		// xorBytes(dst, a, b *byte, n int): the pointers address elements of []Value backing arrays
		n := int(e.concretize(fr, args[3].(*Term), "xorBytes length"))
		if n <= 0 {
			return nil
		}
		pd, pa, pb := args[0].(Ptr), args[1].(Ptr), args[2].(Ptr)
		if pd.p == nil || pa.p == nil || pb.p == nil || pd.ro {
			e.unsupported(fr, "xorBytes on nil or read-only memory")
		}
		dst, a, b := unsafe.Slice(pd.p, n), unsafe.Slice(pa.p, n), unsafe.Slice(pb.p, n)
		for i := 0; i < n; i++ {
			dst[i] = e.ctx.BinBV(OpBXor, a[i].(*Term), b[i].(*Term))
		}
		return nil
	}
	// pdfcpu's loggers are nil in the model (library default); installing or removing one is a no-op
	// (the logger objects live in shared package-initialisation state)
	for _, name := range []string{"SetCLILogger", "SetDebugLogger", "SetInfoLogger", "SetStatsLogger", "SetTraceLogger", "SetParseLogger",
		"SetReadLogger", "SetValidateLogger", "SetOptimizeLogger", "SetWriteLogger", "DisableLoggers"} {
		in["github.com/pdfcpu/pdfcpu/pkg/log."+name] = func(e *Exec, fr *frame, fn *ssa.Function, args []Value) Value { return nil }
	}
	// assembly kernels with a generic Go twin in the same package
	for from, to := range map[string][2]string{
		"crypto/md5.block": {"crypto/md5", "blockGeneric"},
	} {
		to := to
		in[from] = func(e *Exec, fr *frame, fn *ssa.Function, args []Value) Value {
			return e.callSSA(fr, e.eng.stdFunc(to[0], to[1]), args, nil)
		}
	}
	// bytealg and friends: pure-Go replacements from the rt support package (interpreted)
	for from, to := range map[string]string{
		"internal/bytealg.IndexByteString":     "IndexByteString",
		"internal/bytealg.IndexByte":           "IndexByte",
		"internal/bytealg.LastIndexByteString": "LastIndexByteString",
		"internal/bytealg.LastIndexByte":       "LastIndexByte",
		"internal/bytealg.CountString":         "CountString",
		"internal/bytealg.Count":               "Count",
		"internal/bytealg.Equal":               "Equal",
		"internal/bytealg.Compare":             "Compare",
		"internal/bytealg.CompareString":       "CompareString",
		"internal/bytealg.IndexString":         "IndexString",
		"internal/bytealg.Index":               "Index",
		"internal/bytealg.Cutover":             "Cutover",
		"bytes.Equal":                          "Equal",
		"bytes.Compare":                        "Compare",
		"strings.Compare":                      "CompareString",
		"strings.Index":                        "IndexString",
		"internal/stringslite.Index":           "IndexString",
		"bytes.Index":                          "Index",
		"strings.EqualFold":                    "", // interpreted as is
	} {
		if to == "" {
			continue
		}
		to := to
		in[from] = func(e *Exec, fr *frame, fn *ssa.Function, args []Value) Value {
			return e.callSSA(fr, e.eng.stdFunc(rtPath, to), args, nil)
		}
	}

	// --- sync ---
	for _, n := range []string{
		"(*sync.Mutex).Lock", "(*sync.Mutex).Unlock", "(*sync.RWMutex).Lock", "(*sync.RWMutex).Unlock",
		"(*sync.RWMutex).RLock", "(*sync.RWMutex).RUnlock", "(*sync.WaitGroup).Add", "(*sync.WaitGroup).Done", "(*sync.WaitGroup).Wait",
		"(*internal/sync.Mutex).Lock", "(*internal/sync.Mutex).Unlock",
	} {
		in[n] = nop
	}
	in["(*sync.Mutex).TryLock"] = func(e *Exec, fr *frame, fn *ssa.Function, args []Value) Value { return globalTrue }
	in["(*sync.Once).Do"] = func(e *Exec, fr *frame, fn *ssa.Function, args []Value) Value {
		p := args[0].(Ptr)
		if e.onceDone[p.p] {
			return nil
		}
		e.onceDone[p.p] = true
		e.call(fr, args[1], nil)
		return nil
	}
	in["(*sync.Pool).Get"] = func(e *Exec, fr *frame, fn *ssa.Function, args []Value) Value {
		p := args[0].(Ptr)
		st := (*p.p).(Struct)
		newFn := st[len(st)-1]
		if f, ok := newFn.(*ssa.Function); ok && f == nil {
			return Iface{}
		}
		return e.call(fr, newFn, nil)
	}
	in["(*sync.Pool).Put"] = nop

	// --- errors ---
	in["errors.Is"] = intrErrorsIs
	in["errors.As"] = intrErrorsAs

	// --- math/bits ---
	in["math/bits.Mul64"] = func(e *Exec, fr *frame, fn *ssa.Function, args []Value) Value {
		hi, lo := e.ctx.Mul64(args[0].(*Term), args[1].(*Term))
		return Tuple{hi, lo}
	}
	in["math/bits.Add64"] = func(e *Exec, fr *frame, fn *ssa.Function, args []Value) Value {
		c := e.ctx
		x, y, ci := c.ZExt(args[0].(*Term), 65), c.ZExt(args[1].(*Term), 65), c.ZExt(args[2].(*Term), 65)
		s := c.BinBV(OpAdd, c.BinBV(OpAdd, x, y), ci)
		return Tuple{c.Extract(s, 63, 0), c.ZExt(c.Extract(s, 64, 64), 64)}
	}

	// --- math on concrete floats ---
	f1 := map[string]func(float64) float64{
		"Ceil": math.Ceil, "Floor": math.Floor, "Trunc": math.Trunc, "Round": math.Round, "Abs": math.Abs,
		"Sqrt": math.Sqrt, "Log": math.Log, "Log10": math.Log10, "Log2": math.Log2, "Exp": math.Exp,
		"Sin": math.Sin, "Cos": math.Cos, "Tan": math.Tan, "Atan": math.Atan, "Asin": math.Asin, "Acos": math.Acos,
		"RoundToEven": math.RoundToEven,
	}
	for n, f := range f1 {
		f := f
		in["math."+n] = func(e *Exec, fr *frame, fn *ssa.Function, args []Value) Value {
			return Float{f(args[0].(Float).F), 64}
		}
	}
	f2 := map[string]func(float64, float64) float64{
		"Max": math.Max, "Min": math.Min, "Mod": math.Mod, "Pow": math.Pow, "Atan2": math.Atan2, "Hypot": math.Hypot,
		"Copysign": math.Copysign, "Remainder": math.Remainder,
	}
	for n, f := range f2 {
		f := f
		in["math."+n] = func(e *Exec, fr *frame, fn *ssa.Function, args []Value) Value {
			return Float{f(args[0].(Float).F, args[1].(Float).F), 64}
		}
	}
	in["math.IsNaN"] = func(e *Exec, fr *frame, fn *ssa.Function, args []Value) Value {
		return mkBool(math.IsNaN(args[0].(Float).F))
	}
	in["math.IsInf"] = func(e *Exec, fr *frame, fn *ssa.Function, args []Value) Value {
		s := e.concreteInt(fr, args[1], "IsInf sign")
		return mkBool(math.IsInf(args[0].(Float).F, int(s)))
	}
	in["math.Inf"] = func(e *Exec, fr *frame, fn *ssa.Function, args []Value) Value {
		s := e.concreteInt(fr, args[0], "Inf sign")
		return Float{math.Inf(int(s)), 64}
	}
	in["math.NaN"] = func(e *Exec, fr *frame, fn *ssa.Function, args []Value) Value { return Float{math.NaN(), 64} }
	in["math.Float64bits"] = func(e *Exec, fr *frame, fn *ssa.Function, args []Value) Value {
		return mkConst(64, math.Float64bits(args[0].(Float).F))
	}
	in["math.Float32bits"] = func(e *Exec, fr *frame, fn *ssa.Function, args []Value) Value {
		return mkConst(32, uint64(math.Float32bits(float32(args[0].(Float).F))))
	}
	in["math.Float64frombits"] = func(e *Exec, fr *frame, fn *ssa.Function, args []Value) Value {
		v := e.concreteTerm(fr, args[0].(*Term), "Float64frombits")
		return Float{math.Float64frombits(v), 64}
	}
	in["math.Float32frombits"] = func(e *Exec, fr *frame, fn *ssa.Function, args []Value) Value {
		v := e.concreteTerm(fr, args[0].(*Term), "Float32frombits")
		return Float{float64(math.Float32frombits(uint32(v))), 32}
	}
	in["math.Modf"] = func(e *Exec, fr *frame, fn *ssa.Function, args []Value) Value {
		a, b := math.Modf(args[0].(Float).F)
		return Tuple{Float{a, 64}, Float{b, 64}}
	}
	in["math.Signbit"] = func(e *Exec, fr *frame, fn *ssa.Function, args []Value) Value {
		return mkBool(math.Signbit(args[0].(Float).F))
	}

	in["crypto/rand.Read"] = func(e *Exec, fr *frame, fn *ssa.Function, args []Value) Value {
		// contract: arbitrary bytes. File names are built from them, so they are concrete here
		// (a deterministic sequence per path); a collision with an existing name is not modelled.
		b := args[0].(Slice)
		ctr, _ := e.local["randctr"].(int)
		for i := range b.v {
			ctr++
			b.v[i] = byteConsts[byte(ctr*73+11)]
		}
		e.local["randctr"] = ctr
		return Tuple{mkConst(64, uint64(len(b.v))), Iface{}}
	}
	in["(crypto/internal/rand.reader).Read"] = func(e *Exec, fr *frame, fn *ssa.Function, args []Value) Value {
		// rand.Reader (IVs, salts): arbitrary bytes = fresh solver variables, not recorded as draws
		// (the native replay uses the real generator)
		b := args[1].(Slice)
		if conc, _ := e.local["randconcrete"].(bool); e.solver == nil || conc {
			for i := range b.v {
				b.v[i] = byteConsts[byte(i*73+11)]
			}
		} else {
			for i := range b.v {
				b.v[i] = e.ctx.Var(fmt.Sprintf("rnd!%d", e.nextVar), BV(8))
				e.nextVar++
			}
		}
		return Tuple{mkConst(64, uint64(len(b.v))), Iface{}}
	}
	in["maps.clone"] = func(e *Exec, fr *frame, fn *ssa.Function, args []Value) Value {
		iv, ok := args[0].(Iface)
		if !ok {
			e.unsupported(fr, "maps.clone of %s", describe(args[0]))
		}
		m, ok := iv.V.(*Map)
		if !ok {
			e.unsupported(fr, "maps.clone of %s", describe(iv.V))
		}
		if m == nil {
			return iv
		}
		nm := NewMap(m.keyT)
		for _, en := range m.entries {
			if !en.deleted {
				e.mapInsert(fr, nm, en.k, en.v)
			}
		}
		return Iface{T: iv.T, V: nm}
	}
	in["net.ParseIP"] = func(e *Exec, fr *frame, fn *ssa.Function, args []Value) Value {
		ip := net.ParseIP(strArg(e, fr, args[0]))
		if ip == nil {
			return Slice{nil: true}
		}
		v := make([]Value, len(ip))
		for i, b := range ip {
			v[i] = byteConsts[b]
		}
		return Slice{v: v}
	}
	registerFmt(in)
	registerTime(in)
	registerStrconv(in)
	registerRegexp(in)
	registerLog(in)
}

// matchPrefixIntrinsic handles families of body-less functions.
func matchPrefixIntrinsic(name string) (intrinsicFn, bool) {
	if strings.HasPrefix(name, "sync/atomic.") {
		op := strings.TrimPrefix(name, "sync/atomic.")
		switch {
		case strings.HasPrefix(op, "Load"):
			return func(e *Exec, fr *frame, fn *ssa.Function, args []Value) Value { return e.load(fr, args[0]) }, true
		case strings.HasPrefix(op, "Store"):
			return func(e *Exec, fr *frame, fn *ssa.Function, args []Value) Value {
				e.store(fr, args[0], args[1])
				return nil
			}, true
		case strings.HasPrefix(op, "Swap"):
			return func(e *Exec, fr *frame, fn *ssa.Function, args []Value) Value {
				old := e.load(fr, args[0])
				e.store(fr, args[0], args[1])
				return old
			}, true
		case strings.HasPrefix(op, "Add"):
			return func(e *Exec, fr *frame, fn *ssa.Function, args []Value) Value {
				old := e.load(fr, args[0]).(*Term)
				nv := e.ctx.BinBV(OpAdd, old, args[1].(*Term))
				e.store(fr, args[0], nv)
				return nv
			}, true
		case strings.HasPrefix(op, "CompareAndSwap"):
			return func(e *Exec, fr *frame, fn *ssa.Function, args []Value) Value {
				old := e.load(fr, args[0])
				var eq *Term
				switch o := old.(type) {
				case *Term:
					eq = e.ctx.Eq(o, args[1].(*Term))
				case Ptr:
					eq = mkBool(o.p == args[1].(Ptr).p)
				default:
					e.unsupported(fr, "CompareAndSwap on %s", describe(old))
				}
				if e.branch(fr, eq) {
					e.store(fr, args[0], args[2])
					return globalTrue
				}
				return globalFalse
			}, true
		case strings.HasPrefix(op, "And"), strings.HasPrefix(op, "Or"):
			isAnd := strings.HasPrefix(op, "And")
			return func(e *Exec, fr *frame, fn *ssa.Function, args []Value) Value {
				old := e.load(fr, args[0]).(*Term)
				var nv *Term
				if isAnd {
					nv = e.ctx.BinBV(OpBAnd, old, args[1].(*Term))
				} else {
					nv = e.ctx.BinBV(OpBOr, old, args[1].(*Term))
				}
				e.store(fr, args[0], nv)
				return old
			}, true
		}
	}
	if strings.HasPrefix(name, "internal/race.") || strings.HasPrefix(name, "internal/msan.") || strings.HasPrefix(name, "internal/asan.") {
		return func(e *Exec, fr *frame, fn *ssa.Function, args []Value) Value { return nil }, true
	}
	return nil, false
}

// ---- errors.Is / errors.As ----

func (e *Exec) callMethodByName(fr *frame, recv Iface, name string, sigCheck func(*types.Signature) bool, args ...Value) (Value, bool) {
	if recv.T == nil {
		return nil, false
	}
	ms := e.eng.prog.MethodSets.MethodSet(recv.T)
	for i := 0; i < ms.Len(); i++ {
		sel := ms.At(i)
		if sel.Obj().Name() != name {
			continue
		}
		sig := sel.Type().(*types.Signature)
		if sigCheck != nil && !sigCheck(sig) {
			return nil, false
		}
		f := e.eng.prog.MethodValue(sel)
		if f == nil {
			return nil, false
		}
		return e.call(fr, f, append([]Value{recv.V}, args...)), true
	}
	return nil, false
}

func isErrorType(t types.Type) bool {
	return types.Identical(t, types.Universe.Lookup("error").Type())
}

func intrErrorsIs(e *Exec, fr *frame, fn *ssa.Function, args []Value) Value {
	err, target := args[0].(Iface), args[1].(Iface)
	if err.T == nil || target.T == nil {
		return mkBool(err.T == nil && target.T == nil)
	}
	comparable := types.Comparable(target.T)
	return mkBool(e.errorsIs(fr, err, target, comparable, 0))
}

func (e *Exec) errorsIs(fr *frame, err, target Iface, comparable bool, depth int) bool {
	if depth > 64 {
		e.unsupported(fr, "errors.Is chain too deep")
	}
	for {
		if err.T == nil {
			return false
		}
		if comparable && types.Identical(err.T, target.T) {
			if e.branch(fr, e.equals(fr, err.T, err.V, target.V)) {
				return true
			}
		}
		if r, ok := e.callMethodByName(fr, err, "Is", func(s *types.Signature) bool {
			return s.Params().Len() == 1 && isErrorType(s.Params().At(0).Type()) && s.Results().Len() == 1 && isBoolT(s.Results().At(0).Type())
		}, target); ok {
			if e.branch(fr, r.(*Term)) {
				return true
			}
		}
		if r, ok := e.callMethodByName(fr, err, "Unwrap", func(s *types.Signature) bool {
			return s.Params().Len() == 0 && s.Results().Len() == 1
		}); ok {
			switch r := r.(type) {
			case Iface:
				err = r
				continue
			case Slice:
				for _, x := range r.v {
					if xi := x.(Iface); xi.T != nil && e.errorsIs(fr, xi, target, comparable, depth+1) {
						return true
					}
				}
				return false
			}
		}
		return false
	}
}

func intrErrorsAs(e *Exec, fr *frame, fn *ssa.Function, args []Value) Value {
	err, target := args[0].(Iface), args[1].(Iface)
	if target.T == nil {
		e.goPanicf(fr, "errors: target cannot be nil")
	}
	pt, ok := target.T.Underlying().(*types.Pointer)
	if !ok {
		e.goPanicf(fr, "errors: target must be a non-nil pointer")
	}
	tp := target.V.(Ptr)
	if tp.p == nil {
		e.goPanicf(fr, "errors: target must be a non-nil pointer")
	}
	return mkBool(e.errorsAs(fr, err, pt.Elem(), tp, 0))
}

func (e *Exec) errorsAs(fr *frame, err Iface, tt types.Type, tp Ptr, depth int) bool {
	if depth > 64 {
		e.unsupported(fr, "errors.As chain too deep")
	}
	for {
		if err.T == nil {
			return false
		}
		if it, ok := tt.Underlying().(*types.Interface); ok {
			if types.Implements(err.T, it) {
				e.store(fr, tp, err)
				return true
			}
		} else if types.Identical(err.T, tt) {
			e.store(fr, tp, err.V)
			return true
		}
		if r, ok := e.callMethodByName(fr, err, "As", func(s *types.Signature) bool {
			return s.Params().Len() == 1 && s.Results().Len() == 1 && isBoolT(s.Results().At(0).Type())
		}, Iface{T: types.NewPointer(tt), V: tp}); ok {
			if e.branch(fr, r.(*Term)) {
				return true
			}
		}
		if r, ok := e.callMethodByName(fr, err, "Unwrap", func(s *types.Signature) bool {
			return s.Params().Len() == 0 && s.Results().Len() == 1
		}); ok {
			switch r := r.(type) {
			case Iface:
				err = r
				continue
			case Slice:
				for _, x := range r.v {
					if xi := x.(Iface); xi.T != nil && e.errorsAs(fr, xi, tt, tp, depth+1) {
						return true
					}
				}
				return false
			}
		}
		return false
	}
}

// ---- vp.Assert ----

func (e *Exec) vpAssert(fr *frame, cond *Term, msg string) {
	site := fr.pos()
	e.res.Asserts++
	e.res.ReachSites[site]++
	eng := e.eng
	c := e.ctx
	if cond.IsConst() && cond.BoolVal() {
		eng.mu.Lock()
		eng.stats.AssertConcrete++
		eng.mu.Unlock()
		return
	}
	notKnown := c.tt
	for _, k := range e.known {
		notKnown = c.And(notKnown, c.Not(k.pred))
	}
	neg := c.Not(cond)
	if e.solver == nil {
		// concrete mode: cond is constant false
		e.res.Violations = append(e.res.Violations, Violation{Kind: "assert", Msg: msg, Site: site, Draws: stripTerms(e.draws), Observe: e.observes})
		e.abort("assertfail", "assertion failed: %s", msg)
	}
	q := c.And(neg, notKnown)
	draws, sat := e.queryModel(q)
	switch sat {
	case Sat:
		eng.mu.Lock()
		eng.stats.AssertSat++
		eng.mu.Unlock()
		e.res.Violations = append(e.res.Violations, Violation{Kind: "assert", Msg: msg, Site: site, Draws: draws, Observe: e.observes})
	case Unsat:
		eng.mu.Lock()
		eng.stats.AssertUnsat++
		eng.mu.Unlock()
	default:
		eng.mu.Lock()
		eng.stats.AssertUnknown++
		eng.mu.Unlock()
		e.res.Violations = append(e.res.Violations, Violation{Kind: "unknown", Msg: "solver unknown on assertion: " + msg, Site: site})
	}
	for _, k := range e.known {
		draws, sat := e.queryModel(c.And(neg, k.pred))
		if sat == Sat {
			e.res.Violations = append(e.res.Violations, Violation{Kind: "assert", Msg: msg, Site: site, Draws: draws, Known: k.id, Observe: e.observes})
		}
	}
	// continue under the assumption that the assertion held
	r := e.checkWith(cond)
	e.countFeas(r)
	if r == Unsat {
		e.abort("assertfail", "assertion fails on every input of this path: %s", msg)
	}
	e.assertPC(cond)
}

func stripTerms(ds []Draw) []Draw {
	out := make([]Draw, len(ds))
	for i, d := range ds {
		out[i] = d
		if d.term != nil && d.term.IsConst() {
			out[i].Val = new(big.Int).SetUint64(d.term.val).String()
		}
		out[i].term = nil
	}
	return out
}

func (e *Exec) queryModel(q *Term) ([]Draw, SatResult) {
	if q.IsConst() && !q.BoolVal() {
		return nil, Unsat
	}
	e.flushDecls()
	e.solver.Push()
	defer e.solver.Pop()
	e.solver.Assert(q)
	r := e.solver.Check()
	var m map[string]*big.Int
	if r == Unknown {
		r, m = e.portfolio(q)
	}
	if r != Sat {
		return nil, r
	}
	if m == nil {
		var vars []*Term
		for _, d := range e.draws {
			if d.term != nil && !d.term.IsConst() {
				vars = append(vars, d.term)
			}
		}
		m = e.solver.GetValues(vars)
	}
	out := make([]Draw, len(e.draws))
	for i, d := range e.draws {
		out[i] = d
		if d.term != nil {
			if d.term.IsConst() {
				out[i].Val = new(big.Int).SetUint64(d.term.val).String()
			} else if v := m[d.term.name]; v != nil {
				out[i].Val = v.String()
			}
		}
		out[i].term = nil
	}
	return out, Sat
}

func (e *Exec) observeString(v Value) string {
	switch v := v.(type) {
	case Iface:
		if v.T == nil {
			return "<nil>"
		}
		return e.observeString(v.V)
	case *Term:
		if v.IsConst() {
			if v.sort.IsBool() {
				return fmt.Sprint(v.BoolVal())
			}
			return fmt.Sprint(v.val)
		}
		return "<sym>"
	case Str:
		if v.IsConc() {
			return fmt.Sprintf("%q", v.s)
		}
		return "<symstr>"
	case Slice:
		var sb strings.Builder
		sb.WriteString("[")
		for i, x := range v.v {
			if i > 0 {
				sb.WriteString(" ")
			}
			sb.WriteString(e.observeString(x))
		}
		sb.WriteString("]")
		return sb.String()
	case Float:
		return fmt.Sprint(v.F)
	}
	return fmt.Sprintf("<%T>", v)
}
