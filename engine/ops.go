package main

import (
	"fmt"
	"go/token"
	"go/types"
	"math"
	"unicode/utf8"
	"unsafe"

	"golang.org/x/tools/go/ssa"
)

type intKind struct {
	w      int
	signed bool
}

func basicIntKind(t types.Type) (intKind, bool) {
	b, ok := t.Underlying().(*types.Basic)
	if !ok {
		return intKind{}, false
	}
	switch b.Kind() {
	case types.Int, types.Int64, types.UntypedInt:
		return intKind{64, true}, true
	case types.Int8:
		return intKind{8, true}, true
	case types.Int16:
		return intKind{16, true}, true
	case types.Int32, types.UntypedRune:
		return intKind{32, true}, true
	case types.Uint, types.Uint64, types.Uintptr:
		return intKind{64, false}, true
	case types.Uint8:
		return intKind{8, false}, true
	case types.Uint16:
		return intKind{16, false}, true
	case types.Uint32:
		return intKind{32, false}, true
	}
	return intKind{}, false
}

func isSignedT(t types.Type) bool {
	k, ok := basicIntKind(t)
	return !ok || k.signed
}

func isString(t types.Type) bool {
	b, ok := t.Underlying().(*types.Basic)
	return ok && b.Info()&types.IsString != 0
}

func isFloat(t types.Type) bool {
	b, ok := t.Underlying().(*types.Basic)
	return ok && b.Info()&types.IsFloat != 0
}

func isBoolT(t types.Type) bool {
	b, ok := t.Underlying().(*types.Basic)
	return ok && b.Info()&types.IsBoolean != 0
}

// ---- unop ----

func (e *Exec) unop(fr *frame, instr *ssa.UnOp, x Value) Value {
	if _, ok := x.(Opaque); ok {
		e.unsupported(fr, "operation on opaque value (%s)", x.(Opaque).why)
	}
	c := e.ctx
	switch instr.Op {
	case token.ARROW:
		e.unsupported(fr, "channel receive")
	case token.SUB:
		switch x := x.(type) {
		case *Term:
			return c.Neg(x)
		case Float:
			return Float{-x.F, x.Bits}
		case Complex:
			return Complex{-x.C, x.Bits}
		}
	case token.MUL:
		return e.load(fr, x)
	case token.NOT:
		return c.Not(x.(*Term))
	case token.XOR:
		return c.BNot(x.(*Term))
	}
	e.unsupported(fr, "unop %s on %s", instr.Op, describe(x))
	return nil
}

// ---- binop ----

func (e *Exec) binop(fr *frame, op token.Token, t, ty types.Type, x, y Value) Value {
	c := e.ctx
	if o, ok := x.(Opaque); ok {
		e.unsupported(fr, "operation on opaque value (%s)", o.why)
	}
	if o, ok := y.(Opaque); ok {
		e.unsupported(fr, "operation on opaque value (%s)", o.why)
	}
	switch op {
	case token.EQL:
		return e.equals(fr, t, x, y)
	case token.NEQ:
		return c.Not(e.equals(fr, t, x, y))
	}
	switch x := x.(type) {
	case *Term:
		yt, ok := y.(*Term)
		if !ok {
			e.unsupported(fr, "binop %s on term and %s", op, describe(y))
		}
		if x.sort.IsBool() {
			switch op {
			case token.LAND, token.AND:
				return c.And(x, yt)
			case token.LOR, token.OR:
				return c.Or(x, yt)
			}
			e.unsupported(fr, "bool binop %s", op)
		}
		k, ok := basicIntKind(t)
		if !ok {
			e.unsupported(fr, "binop %s on non-integer type %s", op, t)
		}
		switch op {
		case token.SHL, token.SHR:
			if yk, ok := basicIntKind(ty); ok && yk.signed && !(yt.IsConst() && yt.SVal() >= 0) {
				if e.branch(fr, c.Cmp(OpSLt, yt, c.Const(yt.sort.W, 0))) {
					e.goPanicf(fr, "runtime error: negative shift amount")
				}
			}
			return e.shift(fr, op, k, x, yt)
		}
		if x.sort != yt.sort {
			e.unsupported(fr, "binop %s width mismatch %v %v", op, x.sort, yt.sort)
		}
		switch op {
		case token.ADD:
			return c.BinBV(OpAdd, x, yt)
		case token.SUB:
			return c.BinBV(OpSub, x, yt)
		case token.MUL:
			return c.BinBV(OpMul, x, yt)
		case token.QUO, token.REM:
			// division by zero check
			if e.branch(fr, c.Eq(yt, c.Const(k.w, 0))) {
				e.goPanicf(fr, "runtime error: integer divide by zero")
			}
			if k.signed {
				// Go: MinInt / -1 wraps (no panic); SMT bvsdiv gives the same wrapped value.
				if op == token.QUO {
					return c.BinBV(OpSDiv, x, yt)
				}
				return c.BinBV(OpSRem, x, yt)
			}
			if op == token.QUO {
				return c.BinBV(OpUDiv, x, yt)
			}
			return c.BinBV(OpURem, x, yt)
		case token.AND:
			return c.BinBV(OpBAnd, x, yt)
		case token.OR:
			return c.BinBV(OpBOr, x, yt)
		case token.XOR:
			return c.BinBV(OpBXor, x, yt)
		case token.AND_NOT:
			return c.BinBV(OpBAnd, x, c.BNot(yt))
		case token.LSS:
			if k.signed {
				return c.Cmp(OpSLt, x, yt)
			}
			return c.Cmp(OpULt, x, yt)
		case token.LEQ:
			if k.signed {
				return c.Cmp(OpSLe, x, yt)
			}
			return c.Cmp(OpULe, x, yt)
		case token.GTR:
			if k.signed {
				return c.Cmp(OpSLt, yt, x)
			}
			return c.Cmp(OpULt, yt, x)
		case token.GEQ:
			if k.signed {
				return c.Cmp(OpSLe, yt, x)
			}
			return c.Cmp(OpULe, yt, x)
		}
	case Float:
		yf, ok := y.(Float)
		if !ok {
			e.unsupported(fr, "float binop with %s", describe(y))
		}
		a, b := x.F, yf.F
		rnd := func(f float64) Value {
			if x.Bits == 32 {
				return Float{float64(float32(f)), 32}
			}
			return Float{f, 64}
		}
		switch op {
		case token.ADD:
			return rnd(a + b)
		case token.SUB:
			return rnd(a - b)
		case token.MUL:
			return rnd(a * b)
		case token.QUO:
			return rnd(a / b)
		case token.LSS:
			return mkBool(a < b)
		case token.LEQ:
			return mkBool(a <= b)
		case token.GTR:
			return mkBool(a > b)
		case token.GEQ:
			return mkBool(a >= b)
		}
	case Str:
		ys, ok := y.(Str)
		if !ok {
			e.unsupported(fr, "string binop with %s", describe(y))
		}
		switch op {
		case token.ADD:
			return strConcat(x, ys)
		case token.LSS:
			return e.strLess(x, ys, false)
		case token.LEQ:
			return e.strLess(x, ys, true)
		case token.GTR:
			return e.strLess(ys, x, false)
		case token.GEQ:
			return e.strLess(ys, x, true)
		}
	case Complex:
		yc := y.(Complex)
		switch op {
		case token.ADD:
			return Complex{x.C + yc.C, x.Bits}
		case token.SUB:
			return Complex{x.C - yc.C, x.Bits}
		case token.MUL:
			return Complex{x.C * yc.C, x.Bits}
		case token.QUO:
			return Complex{x.C / yc.C, x.Bits}
		}
	}
	e.unsupported(fr, "binop %s on %s, %s", op, describe(x), describe(y))
	return nil
}

func (e *Exec) shift(fr *frame, op token.Token, k intKind, x, y *Term) Value {
	c := e.ctx
	// shift count: any integer type; negative signed counts panic.
	// normalise y to width of x, saturating.
	w := x.sort.W
	var amt *Term
	if y.IsConst() {
		v := y.val
		if v >= uint64(w) {
			v = uint64(w)
		}
		amt = c.Const(w, v)
	} else {
		yw := y.sort.W
		// (signedness of y unknown here; the SSA builder converts signed counts with a check)
		if yw > w {
			big := c.Cmp(OpULe, c.Const(yw, uint64(w)), y)
			amt = c.Ite(big, c.Const(w, uint64(w)), c.Extract(y, w-1, 0))
		} else {
			amt = c.ZExt(y, w)
		}
	}
	// SMT shifts by >= w give 0 (shl, lshr) or sign fill (ashr), matching Go.
	switch {
	case op == token.SHL:
		return c.BinBV(OpShl, x, amt)
	case k.signed:
		return c.BinBV(OpAShr, x, amt)
	default:
		return c.BinBV(OpLShr, x, amt)
	}
}

// strLess builds the lexicographic comparison term.
func (e *Exec) strLess(a, b Str, orEqual bool) *Term {
	if a.IsConc() && b.IsConc() {
		if orEqual {
			return mkBool(a.s <= b.s)
		}
		return mkBool(a.s < b.s)
	}
	c := e.ctx
	n := a.Len()
	if b.Len() < n {
		n = b.Len()
	}
	// result for the common prefix exhausted
	var res *Term
	switch {
	case a.Len() < b.Len():
		res = c.tt
	case a.Len() > b.Len():
		res = c.ff
	default:
		res = c.Bool(orEqual)
	}
	for i := n - 1; i >= 0; i-- {
		x, y := a.At(i), b.At(i)
		res = c.Ite(c.Eq(x, y), res, c.Cmp(OpULt, x, y))
	}
	return res
}

func (e *Exec) strEq(a, b Str) *Term {
	if a.Len() != b.Len() {
		return e.ctx.ff
	}
	if a.IsConc() && b.IsConc() {
		return mkBool(a.s == b.s)
	}
	r := e.ctx.tt
	for i := 0; i < a.Len(); i++ {
		r = e.ctx.And(r, e.ctx.Eq(a.At(i), b.At(i)))
	}
	return r
}

// equals implements Go's == for type t, returning a Bool term.
func (e *Exec) equals(fr *frame, t types.Type, x, y Value) *Term {
	c := e.ctx
	switch x := x.(type) {
	case *Term:
		yt, ok := y.(*Term)
		if !ok {
			e.unsupported(fr, "== between term and %s", describe(y))
		}
		return c.Eq(x, yt)
	case Float:
		return mkBool(x.F == y.(Float).F)
	case Complex:
		return mkBool(x.C == y.(Complex).C)
	case Str:
		return e.strEq(x, y.(Str))
	case Ptr:
		yp, ok := y.(Ptr)
		if !ok {
			e.unsupported(fr, "== between pointer and %s", describe(y))
		}
		if x.symArr != nil || yp.symArr != nil {
			e.unsupported(fr, "comparison of symbolic element pointers")
		}
		return mkBool(x.p == yp.p)
	case Slice:
		// only comparison against nil is legal
		ys := y.(Slice)
		if ys.v == nil && ys.nil {
			return mkBool(x.nil)
		}
		if x.nil {
			return mkBool(ys.nil)
		}
		e.unsupported(fr, "slice comparison")
	case *Map:
		ym := y.(*Map)
		if ym == nil {
			return mkBool(x == nil)
		}
		if x == nil {
			return mkBool(ym == nil)
		}
		return mkBool(x == ym)
	case Chan:
		return mkBool(x == y.(Chan))
	case *ssa.Function:
		if yf, ok := y.(*ssa.Function); ok {
			return mkBool(x == yf)
		}
		return mkBool(false)
	case *Closure:
		if yf, ok := y.(*ssa.Function); ok && yf == nil {
			return mkBool(x == nil)
		}
		return mkBool(false)
	case *ssa.Builtin:
		return mkBool(false)
	case Iface:
		yi, ok := y.(Iface)
		if !ok {
			e.unsupported(fr, "== between interface and %s", describe(y))
		}
		if x.T == nil || yi.T == nil {
			return mkBool(x.T == nil && yi.T == nil)
		}
		if !types.Identical(x.T, yi.T) {
			return c.ff
		}
		if !types.Comparable(x.T) {
			e.goPanicf(fr, "runtime error: comparing uncomparable type %s", x.T)
		}
		return e.equals(fr, x.T, x.V, yi.V)
	case Struct:
		ys := y.(Struct)
		st := t.Underlying().(*types.Struct)
		r := c.tt
		for i := range x {
			if st.Field(i).Name() == "_" {
				continue
			}
			r = c.And(r, e.equals(fr, st.Field(i).Type(), x[i], ys[i]))
		}
		return r
	case Array:
		ya := y.(Array)
		et := t.Underlying().(*types.Array).Elem()
		r := c.tt
		for i := range x {
			r = c.And(r, e.equals(fr, et, x[i], ya[i]))
		}
		return r
	}
	e.unsupported(fr, "== on %s", describe(x))
	return nil
}

// ---- conversions ----

func (e *Exec) conv(fr *frame, tdst, tsrc types.Type, x Value) Value {
	c := e.ctx
	if o, ok := x.(Opaque); ok {
		e.unsupported(fr, "conversion of opaque value (%s)", o.why)
	}
	ud, us := tdst.Underlying(), tsrc.Underlying()
	// integer -> ...
	if sk, ok := basicIntKind(us); ok {
		xt := x.(*Term)
		if dk, ok := basicIntKind(ud); ok {
			return c.Resize(xt, dk.w, sk.signed)
		}
		if isFloat(ud) {
			bits := 64
			if ud.(*types.Basic).Kind() == types.Float32 {
				bits = 32
			}
			v := e.concreteTerm(fr, xt, "int to float conversion")
			var f float64
			if sk.signed {
				f = float64(sx(v, sk.w))
			} else {
				f = float64(v)
			}
			if bits == 32 {
				f = float64(float32(f))
			}
			return Float{f, bits}
		}
		if isString(ud) {
			// string(rune)
			if !xt.IsConst() {
				r32 := c.Resize(xt, 32, sk.signed)
				if !sk.signed && sk.w > 32 {
					// values above MaxRune must become RuneError: saturate
					big := c.Cmp(OpULt, c.Const(sk.w, 0x10FFFF), xt)
					r32 = c.Ite(big, c.Const(32, 0x7fffffff), r32)
				} else if sk.signed && sk.w > 32 {
					out := c.Or(c.Cmp(OpSLt, xt, c.Const(sk.w, 0)), c.Cmp(OpSLt, c.Const(sk.w, 0x10FFFF), xt))
					r32 = c.Ite(out, c.Const(32, 0x7fffffff), r32)
				}
				buf := e.call(fr, e.eng.stdFunc("unicode/utf8", "AppendRune"), []Value{Slice{nil: true}, r32}).(Slice)
				ts := make([]*Term, len(buf.v))
				for i, b := range buf.v {
					ts[i] = b.(*Term)
				}
				return strFromTerms(ts)
			}
			v := e.concreteTerm(fr, xt, "integer to string conversion")
			var r rune
			if sk.signed {
				sv := sx(v, sk.w)
				if sv < 0 || sv > 0x10FFFF {
					r = utf8.RuneError
				} else {
					r = rune(sv)
				}
			} else if v > 0x10FFFF {
				r = utf8.RuneError
			} else {
				r = rune(v)
			}
			return mkStr(string(r))
		}
		if b, ok := ud.(*types.Basic); ok && b.Kind() == types.UnsafePointer {
			e.unsupported(fr, "uintptr to unsafe.Pointer")
		}
	}
	if isFloat(us) {
		xf := x.(Float)
		if dk, ok := basicIntKind(ud); ok {
			f := math.Trunc(xf.F)
			var v uint64
			if dk.signed {
				v = uint64(int64(f))
			} else {
				v = uint64(f)
			}
			return c.Const(dk.w, v)
		}
		if isFloat(ud) {
			if ud.(*types.Basic).Kind() == types.Float32 {
				return Float{float64(float32(xf.F)), 32}
			}
			return Float{xf.F, 64}
		}
	}
	if isString(us) {
		xs := x.(Str)
		if isString(ud) {
			return xs
		}
		if sl, ok := ud.(*types.Slice); ok {
			eb, _ := sl.Elem().Underlying().(*types.Basic)
			if eb != nil && eb.Kind() == types.Uint8 {
				ts := xs.Terms()
				v := make([]Value, len(ts))
				for i, t := range ts {
					v[i] = t
				}
				return Slice{v: v}
			}
			if eb != nil && eb.Kind() == types.Int32 {
				// []rune(s)
				if !xs.IsConc() {
					return e.runesOfSymbolic(fr, xs)
				}
				rs := []rune(xs.s)
				v := make([]Value, len(rs))
				for i, r := range rs {
					v[i] = c.Const(32, uint64(r))
				}
				return Slice{v: v}
			}
		}
	}
	if sl, ok := us.(*types.Slice); ok {
		xs, ok := x.(Slice)
		if !ok {
			e.unsupported(fr, "conversion of %s", describe(x))
		}
		if isString(ud) {
			eb, _ := sl.Elem().Underlying().(*types.Basic)
			if eb != nil && eb.Kind() == types.Uint8 {
				ts := make([]*Term, len(xs.v))
				for i, v := range xs.v {
					ts[i] = v.(*Term)
				}
				return strFromTerms(ts)
			}
			if eb != nil && eb.Kind() == types.Int32 {
				return e.stringOfRunes(fr, xs)
			}
		}
		if _, ok := ud.(*types.Slice); ok {
			return xs
		}
		if _, ok := ud.(*types.Array); ok {
			// slice to array conversion
			at := ud.(*types.Array)
			if int64(len(xs.v)) < at.Len() {
				e.goPanicf(fr, "runtime error: cannot convert slice with length %d to array of length %d", len(xs.v), at.Len())
			}
			a := make(Array, at.Len())
			for i := range a {
				a[i] = copyVal(xs.v[i])
			}
			return a
		}
	}
	// pointer / unsafe.Pointer conversions keep the pointer
	if _, ok := us.(*types.Pointer); ok {
		return x
	}
	if b, ok := us.(*types.Basic); ok && b.Kind() == types.UnsafePointer {
		if _, ok := ud.(*types.Pointer); ok {
			return x
		}
		if dk, ok := basicIntKind(ud); ok {
			_ = dk
			e.unsupported(fr, "unsafe.Pointer to uintptr")
		}
		return x
	}
	if isBoolT(us) && isBoolT(ud) {
		return x
	}
	switch us.(type) {
	case *types.Struct, *types.Array, *types.Map, *types.Signature, *types.Chan, *types.Interface:
		return x
	}
	if _, ok := x.(Complex); ok {
		return x
	}
	e.unsupported(fr, "conversion %s -> %s", tsrc, tdst)
	return nil
}

func (e *Exec) stringOfRunes(fr *frame, xs Slice) Value {
	var res Str
	for _, v := range xs.v {
		t := v.(*Term)
		if t.IsConst() {
			r := rune(int32(t.val))
			res = strConcat(res, mkStr(string(r)))
			continue
		}
		// symbolic rune: delegate to the interpreted utf8.AppendRune
		fn := e.eng.stdFunc("unicode/utf8", "AppendRune")
		out := e.call(fr, fn, []Value{Slice{nil: true}, t}).(Slice)
		ts := make([]*Term, len(out.v))
		for i, b := range out.v {
			ts[i] = b.(*Term)
		}
		res = strConcat(res, strFromTerms(ts))
	}
	return res
}

func (e *Exec) runesOfSymbolic(fr *frame, s Str) Value {
	var out []Value
	it := &Iter{kind: iterStr, str: s}
	for {
		t := it.next(e, fr)
		if !t[0].(*Term).BoolVal() {
			break
		}
		out = append(out, t[2])
	}
	return Slice{v: out}
}

func (e *Exec) sliceToArrayPointer(fr *frame, tdst types.Type, x Value) Value {
	xs := x.(Slice)
	at := deref(tdst).Underlying().(*types.Array)
	if int64(len(xs.v)) < at.Len() {
		e.goPanicf(fr, "runtime error: cannot convert slice with length %d to array or pointer to array with length %d", len(xs.v), at.Len())
	}
	if xs.nil && at.Len() == 0 {
		return Ptr{}
	}
	// Share the backing store: Array header over the same []Value.
	cell := new(Value)
	*cell = Array(xs.v[:at.Len():at.Len()])
	return Ptr{p: cell, ro: xs.ro}
}

// ---- slicing / indexing ----

func (e *Exec) slice(fr *frame, instr *ssa.Slice, x, lo, hi, max Value) Value {
	var length, capacity int
	var str Str
	var backing []Value
	ro := false
	isStr := false
	wasNil := false
	switch x := x.(type) {
	case Str:
		isStr = true
		str = x
		length = x.Len()
		capacity = length
	case Slice:
		backing = x.v
		length = len(x.v)
		capacity = cap(x.v)
		ro = x.ro
		wasNil = x.nil
	case Ptr:
		if x.p == nil {
			e.nilDeref(fr)
		}
		arr, ok := (*x.p).(Array)
		if !ok {
			e.unsupported(fr, "slice of pointer to %s", describe(*x.p))
		}
		backing = arr
		length = len(arr)
		capacity = len(arr)
		ro = x.ro
	default:
		e.unsupported(fr, "slice of %s", describe(x))
	}
	l, h, m := 0, length, capacity
	// Evaluate bounds: symbolic bounds are checked symbolically then concretised.
	get := func(v Value, def int, sv ssa.Value) (int, *Term) {
		if v == nil {
			return def, nil
		}
		t := v.(*Term)
		signed := isSignedT(sv.Type())
		if t.IsConst() {
			if signed {
				return int(sx(t.val, t.sort.W)), nil
			}
			return int(t.val), nil
		}
		return 0, e.ctx.Resize(t, 64, signed)
	}
	lC, lT := get(lo, 0, instr.Low)
	hC, hT := get(hi, length, instr.High)
	mC, mT := get(max, capacity, instr.Max)
	if hi == nil && isStr {
		hC = length
	}
	if lT != nil || hT != nil || mT != nil {
		c := e.ctx
		tl, th, tm := lT, hT, mT
		if tl == nil {
			tl = c.Const(64, uint64(lC))
		}
		if th == nil {
			th = c.Const(64, uint64(hC))
		}
		if tm == nil {
			tm = c.Const(64, uint64(mC))
		}
		tl, th, tm = c.Resize(tl, 64, true), c.Resize(th, 64, true), c.Resize(tm, 64, true)
		ok := c.AndN(c.Cmp(OpSLe, c.Const(64, 0), tl), c.Cmp(OpSLe, tl, th), c.Cmp(OpSLe, th, tm), c.Cmp(OpSLe, tm, c.Const(64, uint64(capacity))))
		if !e.branch(fr, ok) {
			e.goPanicf(fr, "runtime error: slice bounds out of range")
		}
		if lT != nil {
			lC = int(e.concretize(fr, tl, "slice low bound"))
		}
		if hT != nil {
			hC = int(e.concretize(fr, th, "slice high bound"))
		}
		if mT != nil {
			mC = int(e.concretize(fr, tm, "slice max bound"))
		}
	}
	l, h, m = lC, hC, mC
	if l < 0 || l > h || h > m || m > capacity {
		e.goPanicf(fr, "runtime error: slice bounds out of range [%d:%d:%d] with capacity %d", l, h, m, capacity)
	}
	if isStr {
		return str.Slice(l, h)
	}
	if backing == nil {
		return Slice{nil: wasNil || true}
	}
	return Slice{v: backing[l:h:m], ro: ro}
}

// indexConcrete bounds-checks idx against n and returns a concrete index
// (forking over feasible values when symbolic).
func (e *Exec) indexConcrete(fr *frame, idx Value, n int, signed bool) int {
	if o, ok := idx.(Opaque); ok {
		e.unsupported(fr, "index is the result of an unsupported operation: %s", o.why)
	}
	t := idx.(*Term)
	if t.IsConst() {
		i := int64(t.val)
		if signed {
			i = sx(t.val, t.sort.W)
		}
		if i < 0 || i >= int64(n) {
			e.goPanicf(fr, "runtime error: index out of range [%d] with length %d", i, n)
		}
		return int(i)
	}
	c := e.ctx
	t64 := c.Resize(t, 64, signed)
	inRange := c.And(c.Cmp(OpSLe, c.Const(64, 0), t64), c.Cmp(OpSLt, t64, c.Const(64, uint64(n))))
	if !e.branch(fr, inRange) {
		e.goPanicf(fr, "runtime error: index out of range [symbolic] with length %d", n)
	}
	return int(e.concretize(fr, t64, "index"))
}

// indexRead reads cells[idx]; symbolic idx over scalar cells builds an ite chain.
func (e *Exec) indexRead(fr *frame, cells []Value, idx Value, signed bool) Value {
	t := idx.(*Term)
	n := len(cells)
	if t.IsConst() {
		i := int64(t.val)
		if signed {
			i = sx(t.val, t.sort.W)
		}
		if i < 0 || i >= int64(n) {
			e.goPanicf(fr, "runtime error: index out of range [%d] with length %d", i, n)
		}
		return cells[i]
	}
	c := e.ctx
	t64 := c.Resize(t, 64, signed)
	inRange := c.And(c.Cmp(OpSLe, c.Const(64, 0), t64), c.Cmp(OpSLt, t64, c.Const(64, uint64(n))))
	if !e.branch(fr, inRange) {
		e.goPanicf(fr, "runtime error: index out of range [symbolic] with length %d", n)
	}
	// scalar cells: ite chain
	allTerms := n > 0 && n <= e.eng.conf.MaxIteTable
	for _, cv := range cells {
		if _, ok := cv.(*Term); !ok {
			allTerms = false
			break
		}
	}
	if allTerms {
		return e.iteChain(t64, cells)
	}
	return cells[e.concretize(fr, t64, "index")]
}

func (e *Exec) iteChain(idx *Term, cells []Value) *Term {
	c := e.ctx
	res := cells[len(cells)-1].(*Term)
	for i := len(cells) - 2; i >= 0; i-- {
		v := cells[i].(*Term)
		res = c.Ite(c.Eq(idx, c.Const(64, uint64(i))), v, res)
	}
	return res
}

func (e *Exec) indexStr(fr *frame, s Str, idx Value, signed bool) Value {
	t := idx.(*Term)
	if t.IsConst() {
		i := int64(t.val)
		if signed {
			i = sx(t.val, t.sort.W)
		}
		if i < 0 || i >= int64(s.Len()) {
			e.goPanicf(fr, "runtime error: index out of range [%d] with length %d", i, s.Len())
		}
		return s.At(int(i))
	}
	ts := s.Terms()
	cells := make([]Value, len(ts))
	for i, x := range ts {
		cells[i] = x
	}
	return e.indexRead(fr, cells, idx, signed)
}

// ---- type assertion ----

func (e *Exec) typeAssert(fr *frame, instr *ssa.TypeAssert, xv Value) Value {
	x, ok := xv.(Iface)
	if !ok {
		e.unsupported(fr, "type assertion on %s", describe(xv))
	}
	var v Value
	err := ""
	if x.T == nil {
		err = fmt.Sprintf("interface conversion: interface is nil, not %s", instr.AssertedType)
	} else if idst, ok := instr.AssertedType.Underlying().(*types.Interface); ok {
		if !types.Implements(x.T, idst) && !implementsViaMethodSet(e.eng, x.T, idst) {
			err = fmt.Sprintf("interface conversion: %s does not implement %s", x.T, instr.AssertedType)
		} else {
			v = x
		}
	} else if types.Identical(x.T, instr.AssertedType) {
		v = copyVal(x.V)
	} else {
		err = fmt.Sprintf("interface conversion: interface is %s, not %s", x.T, instr.AssertedType)
	}
	if err != "" {
		if !instr.CommaOk {
			panic(goPanic{v: Iface{T: e.eng.runtimeErrorT, V: mkStr(err)}, pos: fr.pos()})
		}
		return Tuple{zero(instr.AssertedType), globalFalse}
	}
	if instr.CommaOk {
		return Tuple{v, globalTrue}
	}
	return v
}

func implementsViaMethodSet(eng *Engine, t types.Type, iface *types.Interface) bool {
	return false
}

// ---- maps ----

func (e *Exec) mapFind(fr *frame, m *Map, key Value) *mapEntry {
	if m == nil {
		return nil
	}
	if ck, ok := canonKey(key); ok && m.allConcrete() {
		if i, ok := m.index[ck]; ok && !m.entries[i].deleted {
			return m.entries[i]
		}
		return nil
	}
	// symbolic key or symbolic entries: scan with forking on equality
	for _, en := range m.entries {
		if en.deleted {
			continue
		}
		eq := e.equals(fr, m.keyT, en.k, key)
		if e.branch(fr, eq) {
			return en
		}
	}
	return nil
}

func (m *Map) allConcrete() bool { return m.n == len(m.index) }

func (e *Exec) mapInsert(fr *frame, m *Map, key, val Value) {
	if m.ro {
		e.unsupported(fr, "write to shared package-initialisation map")
	}
	if en := e.mapFind(fr, m, key); en != nil {
		en.v = copyVal(val)
		return
	}
	en := &mapEntry{k: copyVal(key), v: copyVal(val)}
	m.entries = append(m.entries, en)
	m.n++
	if ck, ok := canonKey(key); ok {
		m.index[ck] = len(m.entries) - 1
	}
}

func (e *Exec) mapDelete(fr *frame, m *Map, key Value) {
	if m == nil {
		return
	}
	if m.ro {
		e.unsupported(fr, "delete from shared package-initialisation map")
	}
	if en := e.mapFind(fr, m, key); en != nil {
		en.deleted = true
		m.n--
		if ck, ok := canonKey(en.k); ok {
			delete(m.index, ck)
		}
	}
}

func (m *Map) Len() int {
	if m == nil {
		return 0
	}
	return m.n
}

func (e *Exec) lookup(fr *frame, instr *ssa.Lookup, x, idx Value) Value {
	switch x := x.(type) {
	case *Map:
		vt := instr.X.Type().Underlying().(*types.Map).Elem()
		var v Value
		ok := false
		if en := e.mapFind(fr, x, idx); en != nil {
			v = copyVal(en.v)
			if x.ro {
				v = freeze(v)
			}
			ok = true
		} else {
			v = zero(vt)
		}
		if instr.CommaOk {
			return Tuple{v, mkBool(ok)}
		}
		return v
	case Str:
		return e.indexStr(fr, x, idx, isSignedT(instr.Index.Type()))
	}
	e.unsupported(fr, "lookup on %s", describe(x))
	return nil
}

// ---- iterators ----

const (
	iterStr = iota
	iterMap
)

type Iter struct {
	kind    int
	str     Str
	pos     int
	entries []*mapEntry
	m       *Map
}

func (e *Exec) rangeIter(fr *frame, x Value) Value {
	switch x := x.(type) {
	case Str:
		return &Iter{kind: iterStr, str: x}
	case *Map:
		it := &Iter{kind: iterMap, m: x}
		if x != nil {
			it.entries = append(it.entries, x.entries...)
			if e.eng.conf.MapOrderReversed {
				for i, j := 0, len(it.entries)-1; i < j; i, j = i+1, j-1 {
					it.entries[i], it.entries[j] = it.entries[j], it.entries[i]
				}
			}
			if e.eng.conf.MapRotate && e.eng.conf.Concrete == nil && !e.templateMode && e.mergeDepth == 0 {
				var live []*mapEntry
				for _, en := range it.entries {
					if !en.deleted {
						live = append(live, en)
					}
				}
				if len(live) > 1 {
					r := int(e.choice(0, int64(len(live)-1)))
					it.entries = append(append([]*mapEntry{}, live[r:]...), live[:r]...)
				}
			}
		}
		return it
	}
	e.unsupported(fr, "range over %s", describe(x))
	return nil
}

func (it *Iter) next(e *Exec, fr *frame) Tuple {
	switch it.kind {
	case iterMap:
		for it.pos < len(it.entries) {
			en := it.entries[it.pos]
			it.pos++
			if en.deleted {
				continue
			}
			k, v := copyVal(en.k), copyVal(en.v)
			if it.m.ro {
				k, v = freeze(k), freeze(v)
			}
			return Tuple{globalTrue, k, v}
		}
		return Tuple{globalFalse, nil, nil}
	case iterStr:
		if it.pos >= it.str.Len() {
			return Tuple{globalFalse, mkConst(64, 0), mkConst(32, 0)}
		}
		start := it.pos
		if it.str.IsConc() {
			r, sz := utf8.DecodeRuneInString(it.str.s[it.pos:])
			it.pos += sz
			return Tuple{globalTrue, mkConst(64, uint64(start)), mkConst(32, uint64(r))}
		}
		b0 := it.str.At(it.pos)
		if b0.IsConst() && b0.val < utf8.RuneSelf {
			it.pos++
			return Tuple{globalTrue, mkConst(64, uint64(start)), mkConst(32, b0.val)}
		}
		// delegate to the interpreted utf8.DecodeRuneInString (forks on byte classes)
		fn := e.eng.stdFunc("unicode/utf8", "DecodeRuneInString")
		res := e.call(fr, fn, []Value{it.str.Slice(it.pos, it.str.Len())}).(Tuple)
		sz := e.concreteInt(fr, res[1], "rune size")
		it.pos += int(sz)
		return Tuple{globalTrue, mkConst(64, uint64(start)), res[0]}
	}
	panic("bad iterator")
}

// ---- builtins ----

func (e *Exec) appendValues(caller *frame, dst Slice, add []Value) Slice {
	if len(add) == 0 {
		return dst
	}
	if dst.ro && len(dst.v)+len(add) <= cap(dst.v) {
		// would write into the shared template's spare capacity: force a copy
		nv := make([]Value, len(dst.v), len(dst.v)+len(add))
		copy(nv, dst.v)
		dst = Slice{v: nv}
	}
	if len(dst.v)+len(add) > cap(dst.v) {
		e.noteAlloc(caller, int64(len(dst.v)+len(add)))
	}
	nv := dst.v
	for _, a := range add {
		nv = append(nv, copyVal(a))
	}
	return Slice{v: nv}
}

func (e *Exec) callBuiltin(caller *frame, fn *ssa.Builtin, args []Value) Value {
	c := e.ctx
	switch fn.Name() {
	case "append":
		if len(args) == 1 {
			return args[0]
		}
		dst := args[0].(Slice)
		var add []Value
		switch s := args[1].(type) {
		case Str:
			for _, t := range s.Terms() {
				add = append(add, t)
			}
		case Slice:
			add = s.v
		default:
			e.unsupported(caller, "append of %s", describe(args[1]))
		}
		return e.appendValues(caller, dst, add)

	case "copy":
		dst := args[0].(Slice)
		var src []Value
		switch s := args[1].(type) {
		case Str:
			for _, t := range s.Terms() {
				src = append(src, t)
			}
		case Slice:
			src = s.v
		}
		if dst.ro && len(dst.v) > 0 && len(src) > 0 {
			e.unsupported(caller, "copy into shared package-initialisation state")
		}
		n := len(dst.v)
		if len(src) < n {
			n = len(src)
		}
		// handle overlap like memmove
		tmp := make([]Value, n)
		for i := 0; i < n; i++ {
			tmp[i] = copyVal(src[i])
		}
		copy(dst.v, tmp)
		return c.Const(64, uint64(n))

	case "close":
		return nil

	case "delete":
		e.mapDelete(caller, args[0].(*Map), args[1])
		return nil

	case "clear":
		switch x := args[0].(type) {
		case *Map:
			if x != nil {
				if x.ro {
					e.unsupported(caller, "clear of shared map")
				}
				x.entries = nil
				x.index = map[string]int{}
				x.n = 0
			}
		case Slice:
			et := fn.Type().(*types.Signature).Params().At(0).Type().Underlying().(*types.Slice).Elem()
			for i := range x.v {
				x.v[i] = zero(et)
			}
		}
		return nil

	case "print", "println":
		return nil

	case "len":
		switch x := args[0].(type) {
		case Str:
			return c.Const(64, uint64(x.Len()))
		case Array:
			return c.Const(64, uint64(len(x)))
		case Ptr:
			return c.Const(64, uint64(len((*x.p).(Array))))
		case Slice:
			return c.Const(64, uint64(len(x.v)))
		case *Map:
			return c.Const(64, uint64(x.Len()))
		case Chan:
			return c.Const(64, 0)
		}
		e.unsupported(caller, "len of %s", describe(args[0]))

	case "cap":
		switch x := args[0].(type) {
		case Array:
			return c.Const(64, uint64(len(x)))
		case Ptr:
			return c.Const(64, uint64(len((*x.p).(Array))))
		case Slice:
			return c.Const(64, uint64(cap(x.v)))
		case Chan:
			return c.Const(64, 0)
		}
		e.unsupported(caller, "cap of %s", describe(args[0]))

	case "min", "max":
		isMin := fn.Name() == "min"
		res := args[0]
		t := fn.Type().(*types.Signature).Params().At(0).Type()
		for _, a := range args[1:] {
			switch x := res.(type) {
			case *Term:
				k, _ := basicIntKind(t)
				var lt *Term
				if k.signed {
					lt = c.Cmp(OpSLt, a.(*Term), x)
				} else {
					lt = c.Cmp(OpULt, a.(*Term), x)
				}
				if isMin {
					res = c.Ite(lt, a.(*Term), x)
				} else {
					res = c.Ite(lt, x, a.(*Term))
				}
			case Float:
				af := a.(Float)
				if isMin {
					res = Float{math.Min(x.F, af.F), x.Bits}
				} else {
					res = Float{math.Max(x.F, af.F), x.Bits}
				}
			case Str:
				lt := e.strLess(a.(Str), x, false)
				pick := e.branch(caller, lt)
				if pick == isMin {
					res = a
				}
			}
		}
		return res

	case "real":
		x := args[0].(Complex)
		return Float{real(x.C), x.Bits / 2}
	case "imag":
		x := args[0].(Complex)
		return Float{imag(x.C), x.Bits / 2}
	case "complex":
		return Complex{complex(args[0].(Float).F, args[1].(Float).F), args[0].(Float).Bits * 2}

	case "panic":
		panic(goPanic{v: args[0], pos: caller.pos()})

	case "recover":
		return e.doRecover(caller)

	case "ssa:wrapnilchk":
		recv := args[0]
		if p, ok := recv.(Ptr); ok && p.p == nil {
			e.goPanicf(caller, "value method %s.%s called using nil pointer", describe(args[1]), describe(args[2]))
		}
		return recv

	case "String": // unsafe.String(ptr *byte, len)
		p := args[0].(Ptr)
		n := e.concreteInt(caller, args[1], "unsafe.String length")
		if n == 0 {
			return Str{}
		}
		if p.p == nil || p.symArr != nil {
			e.unsupported(caller, "unsafe.String on nil/symbolic pointer")
		}
		cells := unsafe.Slice(p.p, int(n))
		ts := make([]*Term, n)
		for i, cv := range cells {
			t, ok := cv.(*Term)
			if !ok {
				e.unsupported(caller, "unsafe.String over non-byte memory")
			}
			ts[i] = t
		}
		return strFromTerms(ts)
	case "SliceData":
		sl := args[0].(Slice)
		if cap(sl.v) == 0 {
			return Ptr{}
		}
		return Ptr{p: &sl.v[:1][0], ro: sl.ro}
	case "Slice": // unsafe.Slice(ptr, len)
		p := args[0].(Ptr)
		n := e.concreteInt(caller, args[1], "unsafe.Slice length")
		if p.p == nil {
			return Slice{nil: true}
		}
		return Slice{v: unsafe.Slice(p.p, int(n)), ro: p.ro}
	case "StringData":
		st := args[0].(Str)
		if st.Len() == 0 {
			return Ptr{}
		}
		ts := st.Terms()
		cells := make([]Value, len(ts))
		for i, t := range ts {
			cells[i] = t
		}
		return Ptr{p: &cells[0], ro: true}
	case "Add":
		e.unsupported(caller, "unsafe.Add")
	}
	e.unsupported(caller, "builtin %s", fn.Name())
	return nil
}

func (e *Exec) doRecover(caller *frame) Value {
	// recover() must be called directly by a deferred function; caller is that
	// function's frame and caller.caller the panicking frame.
	if caller != nil && caller.caller != nil && caller.caller.panicking {
		caller.caller.panicking = false
		p := caller.caller.panicV
		caller.caller.panicV = nil
		if p == nil {
			return Iface{}
		}
		if iv, ok := p.v.(Iface); ok {
			return iv
		}
		return Iface{T: types.Typ[types.String], V: p.v}
	}
	return Iface{}
}
