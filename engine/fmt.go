package main

// fmt / log intrinsics. Concrete arguments are formatted by the real fmt
// package; symbolic integers and strings are spliced in for the verbs pdfcpu uses.

import (
	"fmt"
	"go/types"
	"strings"

	"golang.org/x/tools/go/ssa"
)

type stringerShim struct{ s string }

func (s stringerShim) String() string { return s.s }

type errorShim struct{ s string }

func (s errorShim) Error() string { return s.s }

// goValue converts a fully concrete interpreter value to a native Go value for fmt.
func (e *Exec) goValue(fr *frame, iv Iface) (interface{}, bool) { return e.goValueVerb(fr, iv, 'v') }

func (e *Exec) goValueVerb(fr *frame, iv Iface, verb byte) (interface{}, bool) {
	if iv.T == nil {
		return nil, true
	}
	_, underBasic := iv.T.Underlying().(*types.Basic)
	rawVerb := underBasic && strings.IndexByte("dxXcobtfeEgGqU", verb) >= 0
	// error / Stringer first
	if _, isBasic := iv.T.(*types.Basic); !isBasic && !rawVerb {
		if r, ok := e.callMethodByName(fr, iv, "Error", func(s *types.Signature) bool {
			return s.Params().Len() == 0 && s.Results().Len() == 1 && isString(s.Results().At(0).Type())
		}); ok {
			if s, ok := r.(Str); ok && s.IsConc() {
				return errorShim{s.s}, true
			}
			return nil, false
		}
		if r, ok := e.callMethodByName(fr, iv, "String", func(s *types.Signature) bool {
			return s.Params().Len() == 0 && s.Results().Len() == 1 && isString(s.Results().At(0).Type())
		}); ok {
			if s, ok := r.(Str); ok && s.IsConc() {
				return stringerShim{s.s}, true
			}
			return nil, false
		}
	}
	return e.goValueOf(fr, iv.T, iv.V)
}

func (e *Exec) goValueOf(fr *frame, t types.Type, v Value) (interface{}, bool) {
	switch x := v.(type) {
	case *Term:
		if !x.IsConst() {
			return nil, false
		}
		if x.sort.IsBool() {
			return x.BoolVal(), true
		}
		b, _ := t.Underlying().(*types.Basic)
		if b == nil {
			return x.val, true
		}
		switch b.Kind() {
		case types.Int:
			return int(x.val), true
		case types.Int8:
			return int8(x.val), true
		case types.Int16:
			return int16(x.val), true
		case types.Int32:
			return int32(x.val), true
		case types.Int64:
			return int64(x.val), true
		case types.Uint:
			return uint(x.val), true
		case types.Uint8:
			return uint8(x.val), true
		case types.Uint16:
			return uint16(x.val), true
		case types.Uint32:
			return uint32(x.val), true
		case types.Uint64:
			return uint64(x.val), true
		case types.Uintptr:
			return uintptr(x.val), true
		}
		return x.val, true
	case Str:
		if !x.IsConc() {
			return nil, false
		}
		return x.s, true
	case Float:
		if x.Bits == 32 {
			return float32(x.F), true
		}
		return x.F, true
	case Slice:
		if sl, ok := t.Underlying().(*types.Slice); ok {
			if b, ok := sl.Elem().Underlying().(*types.Basic); ok && b.Kind() == types.Uint8 {
				out := make([]byte, len(x.v))
				for i, c := range x.v {
					ct := c.(*Term)
					if !ct.IsConst() {
						return nil, false
					}
					out[i] = byte(ct.val)
				}
				return out, true
			}
			var out []interface{}
			for _, c := range x.v {
				var gv interface{}
				var ok bool
				if ci, isI := c.(Iface); isI {
					gv, ok = e.goValue(fr, ci)
				} else {
					gv, ok = e.goValueOf(fr, sl.Elem(), c)
				}
				if !ok {
					return nil, false
				}
				out = append(out, gv)
			}
			return out, true
		}
	case Array:
		if at, ok := t.Underlying().(*types.Array); ok {
			if b, ok := at.Elem().Underlying().(*types.Basic); ok && b.Kind() == types.Uint8 {
				out := make([]byte, len(x))
				for i, c := range x {
					ct := c.(*Term)
					if !ct.IsConst() {
						return nil, false
					}
					out[i] = byte(ct.val)
				}
				return out, true
			}
		}
	case Iface:
		return e.goValue(fr, x)
	case Ptr:
		if x.p == nil {
			return nil, true
		}
		return stringerShim{fmt.Sprintf("&<%s>", t)}, true
	}
	return stringerShim{fmt.Sprintf("<%s>", t)}, true
}

type fmtPiece struct {
	lit   string
	verb  byte
	flags string // full verb text e.g. "%02d"
}

func parseFormat(f string) []fmtPiece {
	var out []fmtPiece
	i := 0
	lit := strings.Builder{}
	for i < len(f) {
		if f[i] != '%' {
			lit.WriteByte(f[i])
			i++
			continue
		}
		j := i + 1
		for j < len(f) && strings.IndexByte("+-# 0123456789.*[]", f[j]) >= 0 {
			j++
		}
		if j >= len(f) {
			lit.WriteString(f[i:])
			break
		}
		if f[j] == '%' {
			lit.WriteByte('%')
			i = j + 1
			continue
		}
		if lit.Len() > 0 {
			out = append(out, fmtPiece{lit: lit.String()})
			lit.Reset()
		}
		out = append(out, fmtPiece{verb: f[j], flags: f[i : j+1]})
		i = j + 1
	}
	if lit.Len() > 0 {
		out = append(out, fmtPiece{lit: lit.String()})
	}
	return out
}

// sprintf returns the formatted string; exact=false means the message is a
// placeholder (symbolic arguments under verbs that are not modelled).
func (e *Exec) sprintf(fr *frame, format Str, args []Value, strict bool) Str {
	if !format.IsConc() {
		e.unsupported(fr, "fmt with symbolic format string")
	}
	pieces := parseFormat(format.s)
	var res Str
	ai := 0
	for _, p := range pieces {
		if p.verb == 0 {
			res = strConcat(res, mkStr(p.lit))
			continue
		}
		if strings.ContainsAny(p.flags, "*[") {
			e.unsupported(fr, "fmt verb %s", p.flags)
		}
		if ai >= len(args) {
			res = strConcat(res, mkStr("%!"+string(p.verb)+"(MISSING)"))
			continue
		}
		a := args[ai].(Iface)
		ai++
		if p.verb == 'T' {
			tn := "<nil>"
			if a.T != nil {
				tn = types.TypeString(a.T, func(p *types.Package) string { return p.Name() })
			}
			res = strConcat(res, mkStr(tn))
			continue
		}
		verbFmt := p.flags
		if p.verb == 'w' {
			verbFmt = p.flags[:len(p.flags)-1] + "v"
		}
		if gv, ok := e.goValueVerb(fr, a, p.verb); ok {
			res = strConcat(res, mkStr(fmt.Sprintf(verbFmt, gv)))
			continue
		}
		// symbolic argument (error messages do not format symbolic values: no forks for message text)
		var s Str
		ok := false
		if strict {
			s, ok = e.symVerb(fr, p, a)
		}
		if !ok {
			if strict {
				e.unsupported(fr, "fmt verb %s with symbolic %s", p.flags, a.T)
			}
			s = mkStr("<" + p.flags + ">")
		}
		res = strConcat(res, s)
	}
	return res
}

func (e *Exec) symVerb(fr *frame, p fmtPiece, a Iface) (Str, bool) {
	flags := p.flags[1 : len(p.flags)-1]
	width := 0
	zero := false
	minus := false
	for i := 0; i < len(flags); i++ {
		ch := flags[i]
		switch {
		case ch == '0' && width == 0:
			zero = true
		case ch >= '0' && ch <= '9':
			width = width*10 + int(ch-'0')
		case ch == '-':
			minus = true
		default:
			return Str{}, false
		}
	}
	var s Str
	switch v := a.V.(type) {
	case Str:
		if p.verb != 's' && p.verb != 'v' {
			return Str{}, false
		}
		s = v
	case *Term:
		k, isInt := basicIntKind(a.T)
		if !isInt {
			if v.sort.IsBool() && (p.verb == 't' || p.verb == 'v') {
				if e.branch(fr, v) {
					s = mkStr("true")
				} else {
					s = mkStr("false")
				}
				break
			}
			return Str{}, false
		}
		switch p.verb {
		case 'd', 'v':
			if zero && width > 0 && width <= 18 && !minus {
				// %0Nd: when the path condition entails 0 <= v < 10^N the output is exactly N digits (no fork)
				c := e.ctx
				v64 := c.Resize(v, 64, k.signed)
				lim := uint64(1)
				for i := 0; i < width; i++ {
					lim *= 10
				}
				inside := c.And(c.Cmp(OpSLe, c.Const(64, 0), v64), c.Cmp(OpSLt, v64, c.Const(64, lim)))
				if e.mergeDepth == 0 && e.solver != nil && e.checkWith(c.Not(inside)) == Unsat {
					ts := make([]*Term, width)
					div := uint64(1)
					for i := width - 1; i >= 0; i-- {
						d := c.BinBV(OpURem, c.BinBV(OpUDiv, v64, c.Const(64, div)), c.Const(64, 10))
						ts[i] = c.BinBV(OpAdd, c.Extract(d, 7, 0), c.Const(8, '0'))
						div *= 10
					}
					s = strFromTerms(ts)
					width = 0
					break
				}
			}
			var r Value
			if k.signed {
				r = e.call(fr, e.eng.stdFunc("strconv", "FormatInt"), []Value{e.ctx.Resize(v, 64, true), mkConst(64, 10)})
			} else {
				r = e.call(fr, e.eng.stdFunc("strconv", "FormatUint"), []Value{e.ctx.Resize(v, 64, false), mkConst(64, 10)})
			}
			s = r.(Str)
			if zero && width > 0 && s.Len() > 0 {
				// sign-aware zero padding
				neg := false
				if b0 := s.At(0); b0.IsConst() && b0.val == '-' {
					neg = true
				}
				body := s
				if neg {
					body = s.Slice(1, s.Len())
				}
				padTo := width
				if neg {
					padTo--
				}
				for body.Len() < padTo {
					body = strConcat(mkStr("0"), body)
				}
				if neg {
					body = strConcat(mkStr("-"), body)
				}
				s = body
				width = 0
			}
		case 'x', 'X':
			if k.signed {
				return Str{}, false
			}
			r := e.call(fr, e.eng.stdFunc("strconv", "FormatUint"), []Value{e.ctx.Resize(v, 64, false), mkConst(64, 16)})
			s = r.(Str)
			if p.verb == 'X' {
				ts := s.Terms()
				up := make([]*Term, len(ts))
				c := e.ctx
				for i, t := range ts {
					isLower := c.And(c.Cmp(OpULe, c.Const(8, 'a'), t), c.Cmp(OpULe, t, c.Const(8, 'f')))
					up[i] = c.Ite(isLower, c.BinBV(OpSub, t, c.Const(8, 32)), t)
				}
				s = strFromTerms(up)
			}
			if zero {
				for s.Len() < width {
					s = strConcat(mkStr("0"), s)
				}
			}
		case 'c':
			out := e.call(fr, e.eng.stdFunc("unicode/utf8", "AppendRune"), []Value{Slice{nil: true}, e.ctx.Resize(v, 32, k.signed)}).(Slice)
			ts := make([]*Term, len(out.v))
			for i, b := range out.v {
				ts[i] = b.(*Term)
			}
			s = strFromTerms(ts)
		default:
			return Str{}, false
		}
	case Slice:
		// []byte with %s / %x
		ts := make([]*Term, len(v.v))
		for i, b := range v.v {
			t, ok := b.(*Term)
			if !ok || t.sort.W != 8 {
				return Str{}, false
			}
			ts[i] = t
		}
		if p.verb == 's' {
			s = strFromTerms(ts)
		} else {
			return Str{}, false
		}
	default:
		return Str{}, false
	}
	for s.Len() < width {
		if minus {
			s = strConcat(s, mkStr(" "))
		} else {
			s = strConcat(mkStr(" "), s)
		}
	}
	return s, true
}

func sliceArgs(v Value) []Value {
	s, _ := v.(Slice)
	return s.v
}

func (e *Exec) writeTo(fr *frame, w Value, s Str) Value {
	wi := w.(Iface)
	if wi.T == nil {
		e.nilDeref(fr)
	}
	ts := s.Terms()
	bs := make([]Value, len(ts))
	for i, t := range ts {
		bs[i] = t
	}
	r, ok := e.callMethodByName(fr, wi, "Write", nil, Slice{v: bs})
	if !ok {
		e.unsupported(fr, "fmt.Fprint*: no Write method on %s", wi.T)
	}
	return r
}

func (e *Exec) sprint(fr *frame, args []Value, ln bool) Str {
	var parts []interface{}
	for _, a := range args {
		gv, ok := e.goValue(fr, a.(Iface))
		if !ok {
			// symbolic: only strings are spliced
			if s, isS := a.(Iface).V.(Str); isS {
				var res Str
				for i, b := range args {
					if i > 0 && ln {
						res = strConcat(res, mkStr(" "))
					}
					if bs, ok := b.(Iface).V.(Str); ok {
						res = strConcat(res, bs)
					} else if gv, ok := e.goValue(fr, b.(Iface)); ok {
						res = strConcat(res, mkStr(fmt.Sprint(gv)))
					} else {
						e.unsupported(fr, "fmt.Sprint with symbolic %s", b.(Iface).T)
					}
				}
				_ = s
				if ln {
					res = strConcat(res, mkStr("\n"))
				}
				return res
			}
			e.unsupported(fr, "fmt.Sprint with symbolic %s", a.(Iface).T)
		}
		parts = append(parts, gv)
	}
	if ln {
		return mkStr(fmt.Sprintln(parts...))
	}
	return mkStr(fmt.Sprint(parts...))
}

func (eng *Engine) namedType(pkgPath, name string) types.Type {
	for _, p := range eng.prog.AllPackages() {
		if p.Pkg.Path() == pkgPath {
			if o := p.Pkg.Scope().Lookup(name); o != nil {
				return o.Type()
			}
		}
	}
	panic("namedType: " + pkgPath + "." + name)
}

func registerFmt(in map[string]intrinsicFn) {
	in["fmt.Sprintf"] = func(e *Exec, fr *frame, fn *ssa.Function, args []Value) Value {
		return e.sprintf(fr, args[0].(Str), sliceArgs(args[1]), true)
	}
	in["fmt.Sprint"] = func(e *Exec, fr *frame, fn *ssa.Function, args []Value) Value {
		return e.sprint(fr, sliceArgs(args[0]), false)
	}
	in["fmt.Sprintln"] = func(e *Exec, fr *frame, fn *ssa.Function, args []Value) Value {
		return e.sprint(fr, sliceArgs(args[0]), true)
	}
	in["fmt.Errorf"] = func(e *Exec, fr *frame, fn *ssa.Function, args []Value) Value {
		format := args[0].(Str)
		va := sliceArgs(args[1])
		msg := e.sprintf(fr, format, va, false)
		// collect %w operands
		var wrapped []Iface
		ai := 0
		for _, p := range parseFormat(format.s) {
			if p.verb == 0 {
				continue
			}
			if ai < len(va) && p.verb == 'w' {
				if iv := va[ai].(Iface); iv.T != nil && types.Implements(iv.T, types.Universe.Lookup("error").Type().Underlying().(*types.Interface)) {
					wrapped = append(wrapped, iv)
				}
			}
			ai++
		}
		switch len(wrapped) {
		case 0:
			return e.call(fr, e.eng.stdFunc("errors", "New"), []Value{msg})
		case 1:
			t := e.eng.namedType("fmt", "wrapError")
			cell := new(Value)
			*cell = Struct{msg, wrapped[0]}
			return Iface{T: types.NewPointer(t), V: Ptr{p: cell}}
		default:
			t := e.eng.namedType("fmt", "wrapErrors")
			cell := new(Value)
			errs := make([]Value, len(wrapped))
			for i, w := range wrapped {
				errs[i] = w
			}
			*cell = Struct{msg, Slice{v: errs}}
			return Iface{T: types.NewPointer(t), V: Ptr{p: cell}}
		}
	}
	errNil := func() Value { return Iface{} }
	in["fmt.Fprintf"] = func(e *Exec, fr *frame, fn *ssa.Function, args []Value) Value {
		s := e.sprintf(fr, args[1].(Str), sliceArgs(args[2]), true)
		return e.writeTo(fr, args[0], s)
	}
	in["fmt.Fprint"] = func(e *Exec, fr *frame, fn *ssa.Function, args []Value) Value {
		return e.writeTo(fr, args[0], e.sprint(fr, sliceArgs(args[1]), false))
	}
	in["fmt.Fprintln"] = func(e *Exec, fr *frame, fn *ssa.Function, args []Value) Value {
		return e.writeTo(fr, args[0], e.sprint(fr, sliceArgs(args[1]), true))
	}
	for _, n := range []string{"fmt.Printf", "fmt.Println", "fmt.Print"} {
		in[n] = func(e *Exec, fr *frame, fn *ssa.Function, args []Value) Value {
			return Tuple{mkConst(64, 0), errNil()}
		}
	}
}

func registerLog(in map[string]intrinsicFn) {
	nop := func(e *Exec, fr *frame, fn *ssa.Function, args []Value) Value { return nil }
	for _, n := range []string{"log.Printf", "log.Println", "log.Print", "(*log.Logger).Printf", "(*log.Logger).Println", "(*log.Logger).Print", "(*log.Logger).Output"} {
		in[n] = nop
	}
	for _, n := range []string{"log.Fatalf", "log.Fatal", "log.Fatalln", "(*log.Logger).Fatalf", "(*log.Logger).Fatal", "(*log.Logger).Fatalln", "os.Exit"} {
		in[n] = func(e *Exec, fr *frame, fn *ssa.Function, args []Value) Value {
			e.abort("exit", "process exit via %s", fn.String())
			return nil
		}
	}
}
