package main

// Portfolio fallback: when the path's incremental solver answers "unknown" (time-out) the query is
// re-posed from scratch - all declarations, the whole path condition, the query - to fresh solver
// processes in other configurations (same solver fresh, the other integer encoding, the other solver).
// The first definite answer is taken. Solver performance on the hard arithmetic queries depends on the
// incremental state and on scheduling; a verdict must not.

import (
	"math/big"
)

type portfolioCfg struct {
	kind string
	enc  Encoding
}

func (e *Exec) portfolioConfigs() []portfolioCfg {
	cur := portfolioCfg{e.eng.conf.SolverKind, e.eng.conf.Enc}
	otherEnc := EncInt
	if cur.enc == EncInt {
		otherEnc = EncBV
	}
	otherKind := "cvc5"
	if cur.kind == "cvc5" {
		otherKind = "z3-new"
	}
	return []portfolioCfg{cur, {cur.kind, otherEnc}, {otherKind, cur.enc}, {otherKind, otherEnc}}
}

// portfolio decides PC ∧ q with fresh solvers; on Sat it also returns the model of the path's variables.
func (e *Exec) portfolio(q *Term) (SatResult, map[string]*big.Int) {
	if e.eng.conf.NoPortfolio {
		return Unknown, nil
	}
	for _, cfg := range e.portfolioConfigs() {
		r, m := e.portfolioOne(cfg, q)
		if r != Unknown {
			e.eng.mu.Lock()
			e.eng.stats.PortfolioRescued++
			e.eng.mu.Unlock()
			return r, m
		}
	}
	return Unknown, nil
}

func (e *Exec) portfolioOne(cfg portfolioCfg, q *Term) (res SatResult, model map[string]*big.Int) {
	res = Unknown
	defer func() {
		if r := recover(); r != nil {
			if _, ok := r.(solverError); ok {
				res, model = Unknown, nil
				return
			}
			if _, ok := r.(unsupportedEnc); ok {
				res, model = Unknown, nil
				return
			}
			panic(r)
		}
	}()
	s, err := NewSolver(cfg.kind, cfg.enc, e.eng.conf.TimeoutMs, "")
	if err != nil {
		return Unknown, nil
	}
	defer s.Close()
	for _, v := range e.ctx.vars {
		s.Declare(v)
	}
	for _, t := range e.pc {
		s.Assert(t)
	}
	s.Assert(q)
	r := s.Check()
	e.eng.mu.Lock()
	e.eng.stats.SolverTime += s.elapsed
	e.eng.mu.Unlock()
	if r == Sat {
		var vars []*Term
		for _, d := range e.draws {
			if d.term != nil && !d.term.IsConst() {
				vars = append(vars, d.term)
			}
		}
		return Sat, s.GetValues(vars)
	}
	return r, nil
}
