package main

// Unary domain reasoning: most branch conditions of byte-level parsers mention a
// single 8-bit input variable. For those the engine keeps, per variable, the set
// of values allowed by the unary constraints asserted so far (a 256-bit set) and
// decides feasibility by evaluating the condition on all 256 values instead of
// calling the solver. The set over-approximates the feasible values when the
// variable also occurs in multi-variable constraints ("entangled"): in that case
// only "infeasible" verdicts are taken from the domain, everything else goes to
// the solver. Verdicts are therefore exactly those the solver would give.

type byteSet [4]uint64

func (s *byteSet) has(v int) bool { return s[v>>6]&(1<<uint(v&63)) != 0 }
func (s *byteSet) set(v int)      { s[v>>6] |= 1 << uint(v&63) }
func (s byteSet) empty() bool     { return s[0]|s[1]|s[2]|s[3] == 0 }
func (s byteSet) and(o byteSet) byteSet {
	return byteSet{s[0] & o[0], s[1] & o[1], s[2] & o[2], s[3] & o[3]}
}
func (s byteSet) not() byteSet { return byteSet{^s[0], ^s[1], ^s[2], ^s[3]} }

var fullByteSet = byteSet{^uint64(0), ^uint64(0), ^uint64(0), ^uint64(0)}

// singleVar returns the only variable of t if there is exactly one and it is 8 bits wide.
func singleVar(t *Term, limit int) *Term {
	var found *Term
	n := 0
	seen := map[int]bool{}
	var walk func(x *Term) bool
	walk = func(x *Term) bool {
		if x.op == OpConst {
			return true
		}
		if seen[x.id] {
			return true
		}
		seen[x.id] = true
		n++
		if n > limit {
			return false
		}
		if x.op == OpVar {
			if found != nil && found != x {
				return false
			}
			found = x
			return true
		}
		for _, a := range x.args {
			if !walk(a) {
				return false
			}
		}
		return true
	}
	if !walk(t) || found == nil || found.sort.W != 8 {
		return nil
	}
	return found
}

func termVars(t *Term, acc map[*Term]bool, seen map[int]bool) {
	if t.op == OpConst || seen[t.id] {
		return
	}
	seen[t.id] = true
	if t.op == OpVar {
		acc[t] = true
		return
	}
	for _, a := range t.args {
		termVars(a, acc, seen)
	}
}

// evalTerm evaluates t with variable v bound to val (widths <= 64 only).
func evalTerm(t *Term, v *Term, val uint64, memo map[int]uint64) (uint64, bool) {
	if t.op == OpConst {
		if t.sort.W > 64 {
			return 0, false
		}
		return t.val, true
	}
	if t == v {
		return val, true
	}
	if r, ok := memo[t.id]; ok {
		return r, true
	}
	if t.op == OpVar || t.sort.W > 64 {
		return 0, false
	}
	var a [3]uint64
	for i, x := range t.args {
		r, ok := evalTerm(x, v, val, memo)
		if !ok {
			return 0, false
		}
		if i < 3 {
			a[i] = r
		}
	}
	w := t.sort.W
	aw := 0
	if len(t.args) > 0 {
		aw = t.args[0].sort.W
	}
	var r uint64
	b2u := func(b bool) uint64 {
		if b {
			return 1
		}
		return 0
	}
	switch t.op {
	case OpNot:
		r = a[0] ^ 1
	case OpAnd:
		r = a[0] & a[1]
	case OpOr:
		r = a[0] | a[1]
	case OpEq:
		r = b2u(a[0] == a[1])
	case OpIte:
		if a[0] != 0 {
			r = a[1]
		} else {
			r = a[2]
		}
	case OpAdd:
		r = a[0] + a[1]
	case OpSub:
		r = a[0] - a[1]
	case OpMul:
		r = a[0] * a[1]
	case OpUDiv:
		if a[1] == 0 {
			r = mask(w)
		} else {
			r = a[0] / a[1]
		}
	case OpURem:
		if a[1] == 0 {
			r = a[0]
		} else {
			r = a[0] % a[1]
		}
	case OpSDiv:
		sa, sb := sx(a[0], w), sx(a[1], w)
		switch {
		case sb == 0 && sa < 0:
			r = 1
		case sb == 0:
			r = mask(w)
		case sb == -1:
			r = uint64(-sa)
		default:
			r = uint64(sa / sb)
		}
	case OpSRem:
		sa, sb := sx(a[0], w), sx(a[1], w)
		switch {
		case sb == 0:
			r = a[0]
		case sb == -1:
			r = 0
		default:
			r = uint64(sa % sb)
		}
	case OpNeg:
		r = -a[0]
	case OpBAnd:
		r = a[0] & a[1]
	case OpBOr:
		r = a[0] | a[1]
	case OpBXor:
		r = a[0] ^ a[1]
	case OpBNot:
		r = ^a[0]
	case OpShl:
		if a[1] >= uint64(w) {
			r = 0
		} else {
			r = a[0] << a[1]
		}
	case OpLShr:
		if a[1] >= uint64(w) {
			r = 0
		} else {
			r = a[0] >> a[1]
		}
	case OpAShr:
		sa := sx(a[0], w)
		if a[1] >= uint64(w) {
			if sa < 0 {
				r = mask(w)
			}
		} else {
			r = uint64(sa >> a[1])
		}
	case OpULt:
		r = b2u(a[0] < a[1])
	case OpULe:
		r = b2u(a[0] <= a[1])
	case OpSLt:
		r = b2u(sx(a[0], aw) < sx(a[1], aw))
	case OpSLe:
		r = b2u(sx(a[0], aw) <= sx(a[1], aw))
	case OpZExt:
		r = a[0]
	case OpSExt:
		r = uint64(sx(a[0], aw))
	case OpExtract:
		r = a[0] >> uint(t.p2)
	case OpConcat:
		r = a[0]<<uint(t.args[1].sort.W) | a[1]
	default:
		return 0, false
	}
	if w > 0 {
		r &= mask(w)
	} else {
		r &= 1
	}
	memo[t.id] = r
	return r, true
}

// truthSet returns the set of values of v for which the boolean term t is true.
func truthSet(t, v *Term) (byteSet, bool) {
	var s byteSet
	for x := 0; x < 256; x++ {
		r, ok := evalTerm(t, v, uint64(x), map[int]uint64{})
		if !ok {
			return s, false
		}
		if r != 0 {
			s.set(x)
		}
	}
	return s, true
}

type domains struct {
	dom       map[*Term]byteSet
	entangled map[*Term]bool
}

func (d *domains) get(v *Term) byteSet {
	if s, ok := d.dom[v]; ok {
		return s
	}
	return fullByteSet
}

// note records an asserted path-condition conjunct.
func (d *domains) note(t *Term) {
	if d.dom == nil {
		d.dom = map[*Term]byteSet{}
		d.entangled = map[*Term]bool{}
	}
	if v := singleVar(t, 400); v != nil {
		if ts, ok := truthSet(t, v); ok {
			d.dom[v] = d.get(v).and(ts)
			return
		}
	}
	vars := map[*Term]bool{}
	termVars(t, vars, map[int]bool{})
	for v := range vars {
		d.entangled[v] = true
	}
}

// decide returns (trueFeasible, falseFeasible, exact). exact=false means the verdicts "feasible" are
// only an over-approximation and must be confirmed by the solver; "infeasible" verdicts are always exact.
func (d *domains) decide(cond *Term) (tf, ff, exact, ok bool) {
	v := singleVar(cond, 400)
	if v == nil {
		return false, false, false, false
	}
	ts, ok2 := truthSet(cond, v)
	if !ok2 {
		return false, false, false, false
	}
	dom := d.get(v)
	tf = !dom.and(ts).empty()
	ff = !dom.and(ts.not()).empty()
	return tf, ff, !d.entangled[v], true
}
