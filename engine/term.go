package main

// Term layer: a hash-consed DAG of SMT terms over Bool and fixed-width
// bit-vectors (width 1..128), with constant folding and light simplification.
// The same DAG can be printed in two encodings (see smt.go):
//   - bv  : SMT-LIB bit-vectors, bit-precise
//   - int : mathematical integers with explicit wrap-around to the operand
//           width (machine semantics are kept; used for mul/div/rem kernels)

import (
	"fmt"
	"math/big"
	"math/bits"
	"strings"
)

type Op uint8

const (
	OpConst Op = iota
	OpVar
	// bool
	OpNot
	OpAnd
	OpOr
	OpEq  // any sort, result Bool
	OpIte // cond, a, b
	// bv arith
	OpAdd
	OpSub
	OpMul
	OpUDiv
	OpURem
	OpSDiv
	OpSRem
	OpNeg
	// bitwise
	OpBAnd
	OpBOr
	OpBXor
	OpBNot
	OpShl
	OpLShr
	OpAShr
	// comparisons (result Bool)
	OpULt
	OpULe
	OpSLt
	OpSLe
	// width changes
	OpZExt    // to sort width
	OpSExt    // to sort width
	OpExtract // p1=hi p2=lo
	OpConcat
)

var opNames = map[Op]string{
	OpNot: "not", OpAnd: "and", OpOr: "or", OpEq: "=", OpIte: "ite",
	OpAdd: "bvadd", OpSub: "bvsub", OpMul: "bvmul", OpUDiv: "bvudiv", OpURem: "bvurem",
	OpSDiv: "bvsdiv", OpSRem: "bvsrem", OpNeg: "bvneg", OpBAnd: "bvand", OpBOr: "bvor",
	OpBXor: "bvxor", OpBNot: "bvnot", OpShl: "bvshl", OpLShr: "bvlshr", OpAShr: "bvashr",
	OpULt: "bvult", OpULe: "bvule", OpSLt: "bvslt", OpSLe: "bvsle", OpConcat: "concat",
}

// Sort: W==0 means Bool, otherwise bit-vector of width W.
type Sort struct{ W int }

var BoolSort = Sort{0}

func BV(w int) Sort { return Sort{w} }

func (s Sort) IsBool() bool { return s.W == 0 }
func (s Sort) String() string {
	if s.W == 0 {
		return "Bool"
	}
	return fmt.Sprintf("(_ BitVec %d)", s.W)
}

type Term struct {
	op     Op
	sort   Sort
	args   []*Term
	val    uint64 // constants (width<=64) ; bool: 0/1
	hi     uint64 // high word for constants of width > 64
	name   string // variables
	p1, p2 int
	id     int
	height int
	ub     uint64 // conservative unsigned upper bound (valid when ubok; widths <= 64)
	ubok   bool
	ones   uint64 // bits that may be one (valid when onesok; widths <= 64)
	onesok bool
	slo    int64 // conservative signed interval (valid when sok; widths <= 64)
	shi    int64
	sok    bool
}

// maybeOnes returns the mask of bits of t that may be one.
func maybeOnes(t *Term) uint64 {
	w := t.sort.W
	if w == 0 || w > 64 {
		return ^uint64(0)
	}
	if t.op == OpConst {
		return t.val
	}
	if t.onesok {
		return t.ones
	}
	return mask(w)
}

func smear(x uint64) uint64 {
	for i := uint(1); i < 64; i <<= 1 {
		x |= x >> i
	}
	return x
}

func computeOnes(t *Term) {
	w := t.sort.W
	if w == 0 || w > 64 {
		return
	}
	m := mask(w)
	o := m
	switch t.op {
	case OpZExt:
		o = maybeOnes(t.args[0])
	case OpShl:
		if t.args[1].IsConst() {
			if k := t.args[1].val; k < 64 {
				o = maybeOnes(t.args[0]) << k
			} else {
				o = 0
			}
		}
	case OpLShr:
		if t.args[1].IsConst() {
			if k := t.args[1].val; k < 64 {
				o = maybeOnes(t.args[0]) >> k
			} else {
				o = 0
			}
		}
	case OpBAnd:
		o = maybeOnes(t.args[0]) & maybeOnes(t.args[1])
	case OpBOr, OpBXor:
		o = maybeOnes(t.args[0]) | maybeOnes(t.args[1])
	case OpIte:
		o = maybeOnes(t.args[1]) | maybeOnes(t.args[2])
	case OpExtract:
		o = maybeOnes(t.args[0]) >> uint(t.p2)
	case OpConcat:
		if t.args[0].sort.W <= 64 && t.args[1].sort.W < 64 {
			o = maybeOnes(t.args[0])<<uint(t.args[1].sort.W) | maybeOnes(t.args[1])
		}
	default:
		if t.ubok {
			o = smear(t.ub)
		}
	}
	t.ones, t.onesok = o&m, true
	if t.ubok && smear(t.ub) < t.ones {
		t.ones &= smear(t.ub)
	}
	if t.ones < t.ub {
		t.ub = t.ones
	}
}

// disjointBits reports whether a and b can never have a one bit in the same position.
func disjointBits(a, b *Term) bool {
	if a.sort.W == 0 || a.sort.W > 64 {
		return false
	}
	return maybeOnes(a)&maybeOnes(b) == 0
}

const narrowLimit = int64(1) << 40

// srange returns a conservative signed interval of t, ok=false when unknown/full.
func srange(t *Term) (int64, int64, bool) {
	w := t.sort.W
	if w == 0 || w > 64 {
		return 0, 0, false
	}
	if t.op == OpConst {
		v := sx(t.val, w)
		return v, v, true
	}
	if t.sok {
		return t.slo, t.shi, true
	}
	return 0, 0, false
}

func smallRange(lo, hi int64) bool { return lo > -narrowLimit && hi < narrowLimit }

func computeSRange(t *Term) {
	w := t.sort.W
	if w < 2 || w > 64 {
		return
	}
	wmin, wmax := int64(-1)<<uint(w-1), int64(1)<<uint(w-1)-1
	if w == 64 {
		wmin, wmax = -1<<63, 1<<63-1
	}
	set := func(lo, hi int64) {
		if lo < wmin || hi > wmax || lo > hi || !smallRange(lo, hi) {
			return
		}
		t.slo, t.shi, t.sok = lo, hi, true
	}
	arg := func(i int) (int64, int64, bool) {
		lo, hi, ok := srange(t.args[i])
		if ok && !smallRange(lo, hi) {
			ok = false
		}
		return lo, hi, ok
	}
	switch t.op {
	case OpZExt:
		if u := upper(t.args[0]); u < uint64(narrowLimit) {
			set(0, int64(u))
		}
	case OpSExt:
		if lo, hi, ok := arg(0); ok {
			set(lo, hi)
		}
	case OpAdd:
		al, ah, ok1 := arg(0)
		bl, bh, ok2 := arg(1)
		if ok1 && ok2 {
			set(al+bl, ah+bh)
		}
	case OpSub:
		al, ah, ok1 := arg(0)
		bl, bh, ok2 := arg(1)
		if ok1 && ok2 {
			set(al-bh, ah-bl)
		}
	case OpNeg:
		if lo, hi, ok := arg(0); ok {
			set(-hi, -lo)
		}
	case OpMul:
		al, ah, ok1 := arg(0)
		bl, bh, ok2 := arg(1)
		if ok1 && ok2 && al > -(1<<20) && ah < 1<<20 && bl > -(1<<20) && bh < 1<<20 {
			cands := []int64{al * bl, al * bh, ah * bl, ah * bh}
			lo, hi := cands[0], cands[0]
			for _, v := range cands {
				if v < lo {
					lo = v
				}
				if v > hi {
					hi = v
				}
			}
			set(lo, hi)
		}
	case OpAShr:
		if lo, hi, ok := arg(0); ok && t.args[1].IsConst() {
			k := t.args[1].val
			if k > 63 {
				k = 63
			}
			set(lo>>k, hi>>k)
		}
	case OpBAnd, OpBOr, OpBXor, OpBNot:
		// bitwise ops of values that are sign-extensions of k+1 bits stay within k+1 bits
		var m int64 = 1
		for i := range t.args {
			lo, hi, ok := arg(i)
			if !ok {
				return
			}
			for lo < -m || hi >= m {
				m <<= 1
			}
		}
		set(-m, m-1)
	case OpIte:
		al, ah, ok1 := arg(1)
		bl, bh, ok2 := arg(2)
		if ok1 && ok2 {
			if bl < al {
				al = bl
			}
			if bh > ah {
				ah = bh
			}
			set(al, ah)
		}
	default:
		if t.ubok && nonNeg(t) && t.ub < uint64(narrowLimit) {
			set(0, int64(t.ub))
		}
	}
	if !t.sok && t.ubok && nonNeg(t) && t.ub < uint64(narrowLimit) {
		t.slo, t.shi, t.sok = 0, int64(t.ub), true
	}
}

// fitsSigned reports whether t's signed interval fits in n bits.
func fitsSigned(t *Term, n int) bool {
	lo, hi, ok := srange(t)
	if !ok {
		return false
	}
	return lo >= -(int64(1)<<uint(n-1)) && hi < int64(1)<<uint(n-1)
}

// narrow returns the low n bits of t (n < width), pushing the truncation to the leaves.
func (c *Ctx) narrow(t *Term, n int) *Term {
	if t.sort.W <= n {
		return t
	}
	return c.Extract(t, n-1, 0)
}

// upper returns a conservative unsigned upper bound of t (widths <= 64).
func upper(t *Term) uint64 {
	if t.sort.W == 0 || t.sort.W > 64 {
		return ^uint64(0)
	}
	if t.op == OpConst {
		return t.val
	}
	if t.ubok {
		return t.ub
	}
	return mask(t.sort.W)
}

func computeUB(t *Term) {
	w := t.sort.W
	if w == 0 || w > 64 {
		return
	}
	m := mask(w)
	ub := m
	switch t.op {
	case OpZExt:
		ub = upper(t.args[0])
	case OpAdd:
		a, b := upper(t.args[0]), upper(t.args[1])
		if a+b >= a && a+b <= m {
			ub = a + b
		}
	case OpMul:
		a, b := upper(t.args[0]), upper(t.args[1])
		if hi, lo := bits.Mul64(a, b); hi == 0 && lo <= m {
			ub = lo
		}
	case OpBAnd:
		a, b := upper(t.args[0]), upper(t.args[1])
		if a < b {
			ub = a
		} else {
			ub = b
		}
	case OpBOr, OpBXor:
		a, b := upper(t.args[0]), upper(t.args[1])
		x := a | b
		// smallest all-ones value covering x
		for i := uint(1); i < 64; i <<= 1 {
			x |= x >> i
		}
		ub = x
	case OpLShr:
		a := upper(t.args[0])
		if t.args[1].IsConst() && t.args[1].val < 64 {
			ub = a >> t.args[1].val
		} else {
			ub = a
		}
	case OpUDiv:
		a := upper(t.args[0])
		if t.args[1].IsConst() && t.args[1].val != 0 {
			ub = a / t.args[1].val
		} else {
			ub = m // division by zero gives all ones
		}
	case OpURem:
		if t.args[1].IsConst() && t.args[1].val != 0 {
			ub = t.args[1].val - 1
			if a := upper(t.args[0]); a < ub {
				ub = a
			}
		}
	case OpIte:
		a, b := upper(t.args[1]), upper(t.args[2])
		if a > b {
			ub = a
		} else {
			ub = b
		}
	case OpExtract:
		if t.p2 == 0 {
			if a := upper(t.args[0]); a <= m {
				ub = a
			}
		}
	case OpConcat:
		// zero-extended style concats are rewritten to ZExt; nothing to do
	}
	if ub > m {
		ub = m
	}
	t.ub, t.ubok = ub, true
}

func nonNeg(t *Term) bool {
	w := t.sort.W
	if w == 0 || w > 64 {
		return false
	}
	return upper(t) < uint64(1)<<uint(w-1)
}

func isPow2(v uint64) (int, bool) {
	if v == 0 || v&(v-1) != 0 {
		return 0, false
	}
	return bits.TrailingZeros64(v), true
}

func (t *Term) IsConst() bool { return t.op == OpConst }
func (t *Term) Sort() Sort    { return t.sort }
func (t *Term) W() int        { return t.sort.W }

// Ctx interns terms. One Ctx per path execution (not shared between goroutines).
type extractKey struct {
	a      *Term
	hi, lo int
}

type Ctx struct {
	extMemo map[extractKey]*Term // Extract pushes truncation towards the leaves: without a memo that walk is exponential on deep DAGs (MD5 rounds)
	tab    map[string]*Term
	nextID int
	vars   []*Term
	tt, ff *Term
}

// Constants are context-free (never interned; compared by value), so that
// values computed once in the shared package-initialisation template can be
// used from any path context.
var (
	globalTrue  = &Term{op: OpConst, sort: BoolSort, val: 1}
	globalFalse = &Term{op: OpConst, sort: BoolSort, val: 0}
	byteConsts  [256]*Term
	smallInt64  [1024]*Term
)

func init() {
	for i := range byteConsts {
		byteConsts[i] = &Term{op: OpConst, sort: BV(8), val: uint64(i)}
	}
	for i := range smallInt64 {
		smallInt64[i] = &Term{op: OpConst, sort: BV(64), val: uint64(i)}
	}
}

func NewCtx() *Ctx {
	c := &Ctx{tab: map[string]*Term{}}
	c.tt = globalTrue
	c.ff = globalFalse
	return c
}

func (c *Ctx) key(t *Term) string {
	var sb strings.Builder
	fmt.Fprintf(&sb, "%d:%d:", t.op, t.sort.W)
	switch t.op {
	case OpConst:
		fmt.Fprintf(&sb, "%x:%x", t.hi, t.val)
	case OpVar:
		sb.WriteString(t.name)
	default:
		if t.op == OpExtract {
			fmt.Fprintf(&sb, "%d,%d:", t.p1, t.p2)
		}
		for _, a := range t.args {
			if a.op == OpConst {
				fmt.Fprintf(&sb, "c%d.%x.%x,", a.sort.W, a.hi, a.val)
			} else {
				fmt.Fprintf(&sb, "%d,", a.id)
			}
		}
	}
	return sb.String()
}

func (c *Ctx) intern(t *Term) *Term {
	k := c.key(t)
	if x, ok := c.tab[k]; ok {
		return x
	}
	c.nextID++
	t.id = c.nextID
	h := 0
	for _, a := range t.args {
		if a.height >= h {
			h = a.height + 1
		}
	}
	t.height = h
	computeUB(t)
	computeOnes(t)
	computeSRange(t)
	c.tab[k] = t
	return t
}

func mask(w int) uint64 {
	if w >= 64 {
		return ^uint64(0)
	}
	return (uint64(1) << uint(w)) - 1
}

func (c *Ctx) Bool(b bool) *Term {
	if b {
		return c.tt
	}
	return c.ff
}

func (c *Ctx) Const(w int, v uint64) *Term { return mkConst(w, v) }

func mkConst(w int, v uint64) *Term {
	if w == 0 {
		if v != 0 {
			return globalTrue
		}
		return globalFalse
	}
	if w > 64 {
		return &Term{op: OpConst, sort: BV(w), val: v}
	}
	v &= mask(w)
	if w == 8 {
		return byteConsts[v]
	}
	if w == 64 && v < uint64(len(smallInt64)) {
		return smallInt64[v]
	}
	return &Term{op: OpConst, sort: BV(w), val: v}
}

func mkBool(b bool) *Term {
	if b {
		return globalTrue
	}
	return globalFalse
}

func (c *Ctx) Const128(hi, lo uint64) *Term {
	return &Term{op: OpConst, sort: BV(128), val: lo, hi: hi}
}

func (c *Ctx) Var(name string, s Sort) *Term {
	t := c.intern(&Term{op: OpVar, sort: s, name: name})
	for _, v := range c.vars {
		if v == t {
			return t
		}
	}
	c.vars = append(c.vars, t)
	return t
}

// signed value of a <=64-bit constant
func (t *Term) SVal() int64 {
	w := t.sort.W
	if w >= 64 {
		return int64(t.val)
	}
	if t.val&(1<<uint(w-1)) != 0 {
		return int64(t.val | ^mask(w))
	}
	return int64(t.val)
}

func (t *Term) BoolVal() bool { return t.val != 0 }

// ---- boolean constructors ----

func (c *Ctx) Not(a *Term) *Term {
	if a.IsConst() {
		return c.Bool(a.val == 0)
	}
	if a.op == OpNot {
		return a.args[0]
	}
	return c.intern(&Term{op: OpNot, sort: BoolSort, args: []*Term{a}})
}

func (c *Ctx) And(a, b *Term) *Term {
	if a.IsConst() {
		if a.val == 0 {
			return c.ff
		}
		return b
	}
	if b.IsConst() {
		if b.val == 0 {
			return c.ff
		}
		return a
	}
	if a == b {
		return a
	}
	return c.intern(&Term{op: OpAnd, sort: BoolSort, args: []*Term{a, b}})
}

func (c *Ctx) Or(a, b *Term) *Term {
	if a.IsConst() {
		if a.val != 0 {
			return c.tt
		}
		return b
	}
	if b.IsConst() {
		if b.val != 0 {
			return c.tt
		}
		return a
	}
	if a == b {
		return a
	}
	return c.intern(&Term{op: OpOr, sort: BoolSort, args: []*Term{a, b}})
}

func (c *Ctx) AndN(ts ...*Term) *Term {
	r := c.tt
	for _, t := range ts {
		r = c.And(r, t)
	}
	return r
}

func (c *Ctx) Implies(a, b *Term) *Term { return c.Or(c.Not(a), b) }

func (c *Ctx) Eq(a, b *Term) *Term {
	if a.sort != b.sort {
		panic(fmt.Sprintf("Eq: sort mismatch %v vs %v", a.sort, b.sort))
	}
	if a.IsConst() && b.IsConst() {
		return c.Bool(a.val == b.val && a.hi == b.hi)
	}
	if a == b {
		return c.tt
	}
	if a.sort.IsBool() {
		if a.IsConst() {
			if a.val != 0 {
				return b
			}
			return c.Not(b)
		}
		if b.IsConst() {
			if b.val != 0 {
				return a
			}
			return c.Not(a)
		}
	}
	// ite(c, k1, k2) == k  with constants
	if b.IsConst() && a.op == OpIte && a.args[1].IsConst() && a.args[2].IsConst() {
		e1 := a.args[1].val == b.val && a.args[1].hi == b.hi
		e2 := a.args[2].val == b.val && a.args[2].hi == b.hi
		switch {
		case e1 && e2:
			return c.tt
		case e1:
			return a.args[0]
		case e2:
			return c.Not(a.args[0])
		default:
			return c.ff
		}
	}
	if a.IsConst() && b.op == OpIte {
		return c.Eq(b, a)
	}
	// zext(x) == const
	if b.IsConst() && a.op == OpZExt && b.sort.W <= 64 {
		x := a.args[0]
		if b.val&^mask(x.sort.W) != 0 {
			return c.ff
		}
		return c.Eq(x, c.Const(x.sort.W, b.val))
	}
	if a.IsConst() && b.op == OpZExt {
		return c.Eq(b, a)
	}
	if w := a.sort.W; w > 16 && w <= 64 {
		for _, n := range []int{16, 32} {
			if n < w && fitsSigned(a, n) && fitsSigned(b, n) {
				return c.Eq(c.narrow(a, n), c.narrow(b, n))
			}
		}
	}
	if !a.IsConst() && (b.IsConst() || a.id > b.id) {
		a, b = b, a
	}
	return c.intern(&Term{op: OpEq, sort: BoolSort, args: []*Term{a, b}})
}

func (c *Ctx) Ite(cond, a, b *Term) *Term {
	if a.sort != b.sort {
		panic(fmt.Sprintf("Ite: sort mismatch %v vs %v", a.sort, b.sort))
	}
	if cond.IsConst() {
		if cond.val != 0 {
			return a
		}
		return b
	}
	if a == b {
		return a
	}
	if a.sort.IsBool() {
		if a.IsConst() && b.IsConst() {
			if a.val != 0 {
				return cond
			}
			return c.Not(cond)
		}
		if a.IsConst() {
			if a.val != 0 {
				return c.Or(cond, b)
			}
			return c.And(c.Not(cond), b)
		}
		if b.IsConst() {
			if b.val != 0 {
				return c.Or(c.Not(cond), a)
			}
			return c.And(cond, a)
		}
	}
	return c.intern(&Term{op: OpIte, sort: a.sort, args: []*Term{cond, a, b}})
}

// ---- bit-vector constructors ----

func sameW(a, b *Term) int {
	if a.sort != b.sort || a.sort.W == 0 {
		panic(fmt.Sprintf("bv op: sort mismatch %v vs %v", a.sort, b.sort))
	}
	return a.sort.W
}

func sx(v uint64, w int) int64 {
	if w >= 64 {
		return int64(v)
	}
	if v&(1<<uint(w-1)) != 0 {
		return int64(v | ^mask(w))
	}
	return int64(v)
}

func bigConst(w int, v *big.Int) *Term {
	m := new(big.Int).Sub(bigPow2(w), big.NewInt(1))
	v = new(big.Int).And(v, m)
	lo := new(big.Int).And(v, new(big.Int).SetUint64(^uint64(0))).Uint64()
	hi := new(big.Int).Rsh(v, 64).Uint64()
	return &Term{op: OpConst, sort: BV(w), val: lo, hi: hi}
}

func (c *Ctx) BinBV(op Op, a, b *Term) *Term {
	w := sameW(a, b)
	if a.IsConst() && b.IsConst() && w > 64 {
		x, y := constBig(a), constBig(b)
		switch op {
		case OpAdd:
			return bigConst(w, x.Add(x, y))
		case OpSub:
			return bigConst(w, x.Add(x.Sub(x, y), bigPow2(w)))
		case OpMul:
			return bigConst(w, x.Mul(x, y))
		case OpBAnd:
			return bigConst(w, x.And(x, y))
		case OpBOr:
			return bigConst(w, x.Or(x, y))
		case OpBXor:
			return bigConst(w, x.Xor(x, y))
		}
	}
	if a.IsConst() && b.IsConst() && w <= 64 {
		x, y := a.val, b.val
		var r uint64
		ok := true
		switch op {
		case OpAdd:
			r = x + y
		case OpSub:
			r = x - y
		case OpMul:
			r = x * y
		case OpUDiv:
			if y == 0 {
				r = mask(w)
			} else {
				r = x / y
			}
		case OpURem:
			if y == 0 {
				r = x
			} else {
				r = x % y
			}
		case OpSDiv:
			sa, sb := sx(x, w), sx(y, w)
			if sb == 0 {
				if sa < 0 {
					r = 1
				} else {
					r = mask(w)
				}
			} else if sb == -1 {
				r = uint64(-sa)
			} else {
				r = uint64(sa / sb)
			}
		case OpSRem:
			sa, sb := sx(x, w), sx(y, w)
			if sb == 0 {
				r = x
			} else if sb == -1 {
				r = 0
			} else {
				r = uint64(sa % sb)
			}
		case OpBAnd:
			r = x & y
		case OpBOr:
			r = x | y
		case OpBXor:
			r = x ^ y
		case OpShl:
			if y >= uint64(w) {
				r = 0
			} else {
				r = x << y
			}
		case OpLShr:
			if y >= uint64(w) {
				r = 0
			} else {
				r = x >> y
			}
		case OpAShr:
			sa := sx(x, w)
			if y >= uint64(w) {
				if sa < 0 {
					r = mask(w)
				} else {
					r = 0
				}
			} else {
				r = uint64(sa >> y)
			}
		default:
			ok = false
		}
		if ok {
			return c.Const(w, r)
		}
	}
	if w <= 64 {
		switch op {
		case OpAdd, OpBOr, OpBXor:
			if a.IsConst() && a.val == 0 {
				return b
			}
			if b.IsConst() && b.val == 0 {
				return a
			}
		case OpSub, OpShl, OpLShr, OpAShr:
			if b.IsConst() && b.val == 0 {
				return a
			}
		case OpMul:
			if a.IsConst() && a.val == 1 {
				return b
			}
			if b.IsConst() && b.val == 1 {
				return a
			}
			if (a.IsConst() && a.val == 0) || (b.IsConst() && b.val == 0) {
				return c.Const(w, 0)
			}
		case OpBAnd:
			if a.IsConst() && a.val == mask(w) {
				return b
			}
			if b.IsConst() && b.val == mask(w) {
				return a
			}
			if (a.IsConst() && a.val == 0) || (b.IsConst() && b.val == 0) {
				return c.Const(w, 0)
			}
			if a == b {
				return a
			}
			// zext(x) & const where const covers x's width entirely
			if b.IsConst() && a.op == OpZExt && b.val&mask(a.args[0].sort.W) == mask(a.args[0].sort.W) {
				return a
			}
		case OpUDiv:
			if b.IsConst() && b.val == 1 {
				return a
			}
		}
		// signed ops on provably non-negative operands are the unsigned ones
		if (op == OpSDiv || op == OpSRem || op == OpAShr) && nonNeg(a) && (op == OpAShr || nonNeg(b)) {
			switch op {
			case OpSDiv:
				return c.BinBV(OpUDiv, a, b)
			case OpSRem:
				return c.BinBV(OpURem, a, b)
			default:
				return c.BinBV(OpLShr, a, b)
			}
		}
		if b.IsConst() {
			if k, ok := isPow2(b.val); ok {
				switch op {
				case OpUDiv:
					return c.BinBV(OpLShr, a, c.Const(w, uint64(k)))
				case OpURem:
					return c.BinBV(OpBAnd, a, c.Const(w, b.val-1))
				case OpMul:
					return c.BinBV(OpShl, a, c.Const(w, uint64(k)))
				}
			}
		}
		if op == OpSub && a == b {
			return c.Const(w, 0)
		}
		if op == OpBXor && a == b {
			return c.Const(w, 0)
		}
		if op == OpBXor && (a.op == OpBXor || b.op == OpBXor) {
			// (p ^ k) ^ k = p: cancel operands that occur on both sides of a xor chain (CBC chaining and
			// key whitening undo themselves this way; without it the solver has to see through the key's
			// derivation). The chain is rebuilt only when something cancels.
			var la, lb []*Term
			if xorLeaves(a, &la, 24) && xorLeaves(b, &lb, 24) {
				cancelled := false
				for i, x := range la {
					if x == nil || x.IsConst() {
						continue
					}
					for j, y := range lb {
						if y != nil && x == y {
							la[i], lb[j] = nil, nil
							cancelled = true
							break
						}
					}
				}
				if cancelled {
					var k uint64
					var r *Term
					for _, x := range append(la, lb...) {
						switch {
						case x == nil:
						case x.IsConst():
							k ^= x.val
						case r == nil:
							r = x
						default:
							r = c.BinBV(OpBXor, r, x)
						}
					}
					if r == nil {
						return c.Const(w, k)
					}
					if k&mask(w) != 0 {
						r = c.BinBV(OpBXor, r, c.Const(w, k))
					}
					return r
				}
			}
		}
		if op == OpBOr && a == b {
			return a
		}
	}
	return c.intern(&Term{op: op, sort: BV(w), args: []*Term{a, b}})
}

// xorLeaves collects the operands of a chain of xors (at most max of them).
func xorLeaves(t *Term, out *[]*Term, max int) bool {
	if t.op == OpBXor && !t.IsConst() {
		return xorLeaves(t.args[0], out, max) && xorLeaves(t.args[1], out, max)
	}
	if len(*out) >= max {
		return false
	}
	*out = append(*out, t)
	return true
}

func (c *Ctx) Neg(a *Term) *Term {
	if a.IsConst() && a.sort.W <= 64 {
		return c.Const(a.sort.W, -a.val)
	}
	return c.intern(&Term{op: OpNeg, sort: a.sort, args: []*Term{a}})
}

func (c *Ctx) BNot(a *Term) *Term {
	if a.IsConst() && a.sort.W <= 64 {
		return c.Const(a.sort.W, ^a.val)
	}
	return c.intern(&Term{op: OpBNot, sort: a.sort, args: []*Term{a}})
}

func (c *Ctx) Cmp(op Op, a, b *Term) *Term {
	w := sameW(a, b)
	if a.IsConst() && b.IsConst() && w <= 64 {
		switch op {
		case OpULt:
			return c.Bool(a.val < b.val)
		case OpULe:
			return c.Bool(a.val <= b.val)
		case OpSLt:
			return c.Bool(sx(a.val, w) < sx(b.val, w))
		case OpSLe:
			return c.Bool(sx(a.val, w) <= sx(b.val, w))
		}
	}
	if a == b {
		return c.Bool(op == OpULe || op == OpSLe)
	}
	if w > 16 && w <= 64 {
		// range-based narrowing: small signed values are compared at 16/32 bits
		for _, n := range []int{16, 32} {
			if n >= w {
				break
			}
			if fitsSigned(a, n) && fitsSigned(b, n) {
				sop := op
				if op == OpULt && nonNeg(a) && nonNeg(b) {
					sop = OpSLt
				} else if op == OpULe && nonNeg(a) && nonNeg(b) {
					sop = OpSLe
				} else if op == OpULt || op == OpULe {
					break
				}
				return c.Cmp(sop, c.narrow(a, n), c.narrow(b, n))
			}
		}
	}
	if w <= 64 {
		// range facts for zero-extended operands against constants
		if op == OpULt && b.IsConst() && b.val == 0 {
			return c.ff
		}
		if op == OpULe && a.IsConst() && a.val == 0 {
			return c.tt
		}
		if a.op == OpZExt && b.IsConst() {
			xm := mask(a.args[0].sort.W)
			// a in [0,xm] both signed and unsigned (since zext to wider)
			if a.args[0].sort.W < w {
				bv := b.val
				sb := sx(bv, w)
				switch op {
				case OpULt:
					if bv > xm {
						return c.tt
					}
				case OpULe:
					if bv >= xm {
						return c.tt
					}
				case OpSLt:
					if sb > int64(xm) {
						return c.tt
					}
					if sb <= 0 {
						return c.ff
					}
				case OpSLe:
					if sb >= int64(xm) {
						return c.tt
					}
					if sb < 0 {
						return c.ff
					}
				}
			}
		}
		if b.op == OpZExt && a.IsConst() && b.args[0].sort.W < w {
			xm := mask(b.args[0].sort.W)
			av := a.val
			sa := sx(av, w)
			switch op {
			case OpULt:
				if av >= xm {
					return c.ff
				}
			case OpULe:
				if av > xm {
					return c.ff
				}
			case OpSLt:
				if sa < 0 {
					return c.tt
				}
				if sa >= int64(xm) {
					return c.ff
				}
			case OpSLe:
				if sa <= 0 {
					return c.tt
				}
				if sa > int64(xm) {
					return c.ff
				}
			}
		}
	}
	return c.intern(&Term{op: op, sort: BoolSort, args: []*Term{a, b}})
}

func (c *Ctx) ZExt(a *Term, w int) *Term {
	if a.sort.W == w {
		return a
	}
	if a.sort.W > w {
		panic("ZExt: narrowing")
	}
	if a.IsConst() && a.sort.W <= 64 {
		if w > 64 {
			return &Term{op: OpConst, sort: BV(w), val: a.val}
		}
		return c.Const(w, a.val)
	}
	if a.op == OpZExt {
		return c.ZExt(a.args[0], w)
	}
	return c.intern(&Term{op: OpZExt, sort: BV(w), args: []*Term{a}})
}

func (c *Ctx) SExt(a *Term, w int) *Term {
	if a.sort.W == w {
		return a
	}
	if a.sort.W > w {
		panic("SExt: narrowing")
	}
	if a.IsConst() && a.sort.W <= 64 && w <= 64 {
		return c.Const(w, uint64(sx(a.val, a.sort.W)))
	}
	if a.op == OpZExt {
		// sign bit is zero
		return c.ZExt(a.args[0], w)
	}
	return c.intern(&Term{op: OpSExt, sort: BV(w), args: []*Term{a}})
}

func (c *Ctx) Extract(a *Term, hi, lo int) *Term {
	if lo == 0 && hi-lo+1 == a.sort.W {
		return a
	}
	if a.IsConst() {
		return c.extract(a, hi, lo)
	}
	k := extractKey{a, hi, lo}
	if r, ok := c.extMemo[k]; ok {
		return r
	}
	r := c.extract(a, hi, lo)
	if c.extMemo == nil {
		c.extMemo = map[extractKey]*Term{}
	}
	c.extMemo[k] = r
	return r
}

func (c *Ctx) extract(a *Term, hi, lo int) *Term {
	w := hi - lo + 1
	if lo == 0 && w == a.sort.W {
		return a
	}
	if a.IsConst() {
		if a.sort.W <= 64 {
			return c.Const(w, a.val>>uint(lo))
		}
		// wide constant
		if w > 64 {
			return bigConst(w, new(big.Int).Rsh(constBig(a), uint(lo)))
		}
		var v uint64
		if lo >= 64 {
			v = a.hi >> uint(lo-64)
		} else if lo == 0 {
			v = a.val
		} else {
			v = a.val>>uint(lo) | a.hi<<uint(64-lo)
		}
		if w <= 64 {
			return c.Const(w, v)
		}
	}
	if (a.op == OpZExt || a.op == OpSExt) && hi < a.args[0].sort.W {
		return c.Extract(a.args[0], hi, lo)
	}
	if a.op == OpZExt && lo >= a.args[0].sort.W {
		return c.Const(w, 0)
	}
	if a.op == OpZExt && lo == 0 && hi >= a.args[0].sort.W {
		return c.ZExt(a.args[0], hi+1)
	}
	if a.sort.W <= 64 && hi < a.sort.W-1 {
		switch a.op {
		case OpAdd, OpSub, OpMul, OpBAnd, OpBOr, OpBXor:
			// low bits of these operations depend only on the low bits of the operands
			n := hi + 1
			r := c.BinBV(a.op, c.Extract(a.args[0], n-1, 0), c.Extract(a.args[1], n-1, 0))
			return c.Extract(r, hi, lo)
		case OpNeg:
			return c.Extract(c.Neg(c.Extract(a.args[0], hi, 0)), hi, lo)
		case OpBNot:
			return c.Extract(c.BNot(c.Extract(a.args[0], hi, 0)), hi, lo)
		case OpShl:
			if a.args[1].IsConst() {
				n := hi + 1
				k := a.args[1].val
				if k > uint64(n) {
					k = uint64(n)
				}
				r := c.BinBV(OpShl, c.Extract(a.args[0], n-1, 0), c.Const(n, k))
				return c.Extract(r, hi, lo)
			}
		case OpLShr:
			if a.args[1].IsConst() && int(a.args[1].val)+hi < a.sort.W {
				k := int(a.args[1].val)
				return c.Extract(a.args[0], hi+k, lo+k)
			}
		case OpIte:
			return c.Ite(a.args[0], c.Extract(a.args[1], hi, lo), c.Extract(a.args[2], hi, lo))
		case OpAShr:
			if lo == 0 && a.args[1].IsConst() && fitsSigned(a.args[0], hi+1) {
				k := a.args[1].val
				if k > uint64(hi) {
					k = uint64(hi)
				}
				return c.BinBV(OpAShr, c.Extract(a.args[0], hi, 0), c.Const(hi+1, k))
			}
		case OpSExt:
			if lo == 0 && hi+1 > a.args[0].sort.W {
				return c.SExt(a.args[0], hi+1)
			}
		}
	}
	if a.op == OpConcat {
		lw := a.args[1].sort.W
		if hi < lw {
			return c.Extract(a.args[1], hi, lo)
		}
		if lo >= lw {
			return c.Extract(a.args[0], hi-lw, lo-lw)
		}
	}
	return c.intern(&Term{op: OpExtract, sort: BV(w), args: []*Term{a}, p1: hi, p2: lo})
}

func (c *Ctx) Concat(a, b *Term) *Term {
	w := a.sort.W + b.sort.W
	if a.IsConst() && b.IsConst() && w <= 64 {
		return c.Const(w, a.val<<uint(b.sort.W)|b.val)
	}
	if a.IsConst() && a.val == 0 && a.hi == 0 {
		return c.ZExt(b, w)
	}
	return c.intern(&Term{op: OpConcat, sort: BV(w), args: []*Term{a, b}})
}

// Trunc/extend helper: convert a to width w (signed decides extension).
func (c *Ctx) Resize(a *Term, w int, signed bool) *Term {
	switch {
	case a.sort.W == w:
		return a
	case a.sort.W > w:
		return c.Extract(a, w-1, 0)
	case signed:
		return c.SExt(a, w)
	default:
		return c.ZExt(a, w)
	}
}

func (c *Ctx) BoolToBV(b *Term, w int) *Term {
	return c.Ite(b, c.Const(w, 1), c.Const(w, 0))
}

// Mul64 returns hi, lo of the 128-bit product of two 64-bit terms.
func (c *Ctx) Mul64(a, b *Term) (hi, lo *Term) {
	if a.IsConst() && b.IsConst() {
		h, l := bits.Mul64(a.val, b.val)
		return c.Const(64, h), c.Const(64, l)
	}
	p := c.intern(&Term{op: OpMul, sort: BV(128), args: []*Term{c.ZExt(a, 128), c.ZExt(b, 128)}})
	return c.Extract(p, 127, 64), c.Extract(p, 63, 0)
}

// ---- misc ----

func (t *Term) String() string {
	switch t.op {
	case OpConst:
		if t.sort.IsBool() {
			if t.val != 0 {
				return "true"
			}
			return "false"
		}
		return fmt.Sprintf("%d:bv%d", t.val, t.sort.W)
	case OpVar:
		return t.name
	}
	return fmt.Sprintf("<%s#%d>", opNames[t.op], t.id)
}

func bigPow2(w int) *big.Int { return new(big.Int).Lsh(big.NewInt(1), uint(w)) }

// Vars returns the set of variables occurring in t (appended to acc).
func collectVars(t *Term, seen map[int]bool, acc *[]*Term) {
	if seen[t.id] {
		return
	}
	seen[t.id] = true
	if t.op == OpVar {
		*acc = append(*acc, t)
	}
	for _, a := range t.args {
		collectVars(a, seen, acc)
	}
}
