package main

// The forking interpreter over go/ssa. Paths are explored by re-execution:
// every symbolic choice is recorded in a decision trace; a sibling is explored
// by running the harness again from the start with the trace prefix.

import (
	"fmt"
	"go/constant"
	"go/token"
	"go/types"
	"os"
	"strings"

	"golang.org/x/tools/go/ssa"
)

// goPanic is a panic of the interpreted program.
type goPanic struct {
	v   Value // Iface
	pos string
}

// pathAbort ends the current path for an engine-level reason.
type pathAbort struct {
	kind string // "infeasible" "assume" "unsupported" "unwind" "budget" "done"
	msg  string
}

type deferred struct {
	fn    Value
	args  []Value
	instr *ssa.Defer
	tail  *deferred
}

type fnInfo struct {
	idx   map[ssa.Value]int
	n     int
	instr int
}

type frame struct {
	e                *Exec
	caller           *frame
	fn               *ssa.Function
	info             *fnInfo
	block, prevBlock *ssa.BasicBlock
	locals           []Value
	defers           *deferred
	result           Value
	panicking        bool
	panicV           *goPanic
	backedges        map[int]int
	curInstr         ssa.Instruction
	skipPhis         bool
}

func (eng *Engine) info(fn *ssa.Function) *fnInfo {
	if v, ok := eng.fnInfos.Load(fn); ok {
		return v.(*fnInfo)
	}
	fi := &fnInfo{idx: map[ssa.Value]int{}}
	add := func(v ssa.Value) {
		fi.idx[v] = fi.n
		fi.n++
	}
	for _, p := range fn.Params {
		add(p)
	}
	for _, p := range fn.FreeVars {
		add(p)
	}
	for _, b := range fn.Blocks {
		for _, in := range b.Instrs {
			fi.instr++
			if v, ok := in.(ssa.Value); ok {
				add(v)
			}
		}
	}
	eng.fnInfos.Store(fn, fi)
	return fi
}

func (fr *frame) get(key ssa.Value) Value {
	switch key := key.(type) {
	case nil:
		return nil
	case *ssa.Function:
		return key
	case *ssa.Builtin:
		return key
	case *ssa.Const:
		return constValue(key)
	case *ssa.Global:
		return fr.e.globalPtr(key)
	}
	if i, ok := fr.info.idx[key]; ok {
		v := fr.locals[i]
		if v == nil {
			panic(fmt.Sprintf("get: unset local %s in %s", key.Name(), fr.fn))
		}
		return v
	}
	panic(fmt.Sprintf("get: no value for %T: %v", key, key.Name()))
}

func (fr *frame) set(key ssa.Value, v Value) {
	fr.locals[fr.info.idx[key]] = v
}

func (fr *frame) pos() string {
	if fr == nil || fr.curInstr == nil {
		return "?"
	}
	p := fr.curInstr.Pos()
	f := fr
	for !p.IsValid() && f != nil {
		// fall back on enclosing positions
		if f.curInstr != nil {
			p = f.curInstr.Pos()
		}
		if !p.IsValid() {
			f = f.caller
		}
	}
	if !p.IsValid() {
		return fr.fn.String()
	}
	return fr.e.eng.prog.Fset.Position(p).String()
}

func (e *Exec) abort(kind, format string, args ...interface{}) {
	panic(pathAbort{kind, fmt.Sprintf(format, args...)})
}

func (e *Exec) unsupported(fr *frame, format string, args ...interface{}) {
	msg := fmt.Sprintf(format, args...)
	if len(msg) > 400 {
		msg = msg[:400] + "..."
	}
	where := ""
	if fr != nil {
		where = " at " + fr.pos() + " in " + fr.fn.String()
	}
	panic(pathAbort{"unsupported", msg + where})
}

// ---- constants ----

func constValue(c *ssa.Const) Value {
	if c.Value == nil {
		return zero(c.Type())
	}
	t := c.Type()
	if tp, ok := t.(*types.TypeParam); ok {
		_ = tp
		panic("const of type parameter")
	}
	if b, ok := t.Underlying().(*types.Basic); ok {
		switch b.Kind() {
		case types.Bool, types.UntypedBool:
			return mkBool(c.Value.String() == "true")
		case types.Int, types.Int64, types.UntypedInt:
			return mkConst(64, uint64(c.Int64()))
		case types.Int8:
			return mkConst(8, uint64(c.Int64()))
		case types.Int16:
			return mkConst(16, uint64(c.Int64()))
		case types.Int32, types.UntypedRune:
			return mkConst(32, uint64(c.Int64()))
		case types.Uint, types.Uint64, types.Uintptr:
			return mkConst(64, c.Uint64())
		case types.Uint8:
			return mkConst(8, c.Uint64())
		case types.Uint16:
			return mkConst(16, c.Uint64())
		case types.Uint32:
			return mkConst(32, c.Uint64())
		case types.Float32:
			return Float{float64(float32(c.Float64())), 32}
		case types.Float64, types.UntypedFloat:
			return Float{c.Float64(), 64}
		case types.Complex64:
			return Complex{c.Complex128(), 64}
		case types.Complex128, types.UntypedComplex:
			return Complex{c.Complex128(), 128}
		case types.String, types.UntypedString:
			if c.Value.Kind() == constant.String {
				return mkStr(constantStringVal(c))
			}
			return mkStr(string(rune(c.Int64())))
		}
	}
	panic(fmt.Sprintf("constValue: %s", c))
}

// ---- running ----

func (e *Exec) callSSA(caller *frame, fn *ssa.Function, args []Value, env []Value) Value {
	if fn.Blocks == nil {
		e.unsupported(caller, "no body for function %s", fn.String())
	}
	e.depth++
	if e.depth > e.eng.conf.MaxDepth {
		e.depth--
		// Deep recursion: Go would eventually overflow the stack (fatal, not recoverable).
		panic(pathAbort{"stackoverflow", fmt.Sprintf("call depth %d exceeded in %s", e.eng.conf.MaxDepth, fn)})
	}
	defer func() { e.depth-- }()
	info := e.eng.info(fn)
	fr := &frame{e: e, caller: caller, fn: fn, info: info}
	fr.locals = make([]Value, info.n)
	for i, p := range fn.Params {
		fr.locals[info.idx[p]] = args[i]
	}
	for i, fv := range fn.FreeVars {
		fr.locals[info.idx[fv]] = env[i]
	}
	if e.eng.conf.Trace {
		fmt.Fprintf(os.Stderr, "%*scall %s\n", e.depth, "", fn)
	}
	e.touch(fn)
	fr.block = fn.Blocks[0]
	for fr.block != nil {
		e.runFrame(fr)
	}
	if fr.panicking {
		panic(*fr.panicV)
	}
	return fr.result
}

func (e *Exec) runFrame(fr *frame) {
	defer func() {
		if fr.block == nil {
			return // normal return
		}
		r := recover()
		gp, ok := r.(goPanic)
		if !ok {
			panic(r) // engine-level abort or bug: propagate
		}
		fr.panicking = true
		fr.panicV = &gp
		fr.runDefers()
		fr.block = fr.fn.Recover
		if fr.block == nil {
			// recovered but function has no recover block: return zero results
			fr.result = zeroResults(fr.fn)
		}
	}()
	for {
		block := fr.block
		// phis
		nphi := 0
		for _, in := range block.Instrs {
			if _, ok := in.(*ssa.Phi); ok {
				nphi++
			} else {
				break
			}
		}
		if fr.skipPhis {
			fr.skipPhis = false
		} else if nphi > 0 {
			pi := -1
			for i, p := range block.Preds {
				if p == fr.prevBlock {
					pi = i
					break
				}
			}
			tmp := make([]Value, nphi)
			for i := 0; i < nphi; i++ {
				tmp[i] = fr.get(block.Instrs[i].(*ssa.Phi).Edges[pi])
			}
			for i := 0; i < nphi; i++ {
				fr.set(block.Instrs[i].(*ssa.Phi), tmp[i])
			}
		}
		jumped := false
		for _, in := range block.Instrs[nphi:] {
			fr.curInstr = in
			e.steps++
			if e.steps > e.eng.conf.MaxSteps {
				e.abort("budget", "instruction budget %d exceeded", e.eng.conf.MaxSteps)
			}
			switch e.visitInstr(fr, in) {
			case kReturn:
				return
			case kJump:
				jumped = true
			}
			if jumped {
				break
			}
		}
		if !jumped {
			panic("block fell through: " + fr.fn.String())
		}
		// back edge accounting (unwinding assertion)
		if fr.block.Index <= fr.prevBlock.Index && fr.block.Dominates(fr.prevBlock) {
			if fr.backedges == nil {
				fr.backedges = map[int]int{}
			}
			fr.backedges[fr.block.Index]++
			n := fr.backedges[fr.block.Index]
			if n > e.maxUnwindSeen {
				e.maxUnwindSeen = n
			}
			if n > e.eng.conf.Unwind {
				e.abort("unwind", "loop at %s exceeded unwind bound %d", fr.pos(), e.eng.conf.Unwind)
			}
		}
	}
}

func zeroResults(fn *ssa.Function) Value {
	res := fn.Signature.Results()
	switch res.Len() {
	case 0:
		return nil
	case 1:
		return zero(res.At(0).Type())
	}
	return zero(res)
}

func (fr *frame) runDefer(d *deferred) {
	var ok bool
	defer func() {
		if !ok {
			r := recover()
			gp, isGo := r.(goPanic)
			if !isGo {
				panic(r)
			}
			fr.panicking = true
			fr.panicV = &gp
		}
	}()
	fr.e.call(fr, d.fn, d.args)
	ok = true
}

func (fr *frame) runDefers() {
	for d := fr.defers; d != nil; d = d.tail {
		fr.runDefer(d)
	}
	fr.defers = nil
	if fr.panicking {
		panic(*fr.panicV)
	}
}

type continuation int

const (
	kNext continuation = iota
	kReturn
	kJump
)

func (e *Exec) visitInstr(fr *frame, instr ssa.Instruction) continuation {
	if e.templateMode {
		// poison propagation: unsupported operations during package
		// initialisation produce Opaque values instead of aborting.
		if v, ok := instr.(ssa.Value); ok {
			defer func() {
				if r := recover(); r != nil {
					if pa, ok := r.(pathAbort); ok && (pa.kind == "unsupported") {
						msg := pa.msg
						if len(msg) > 300 {
							msg = msg[:300] + "..."
						}
						fr.set(v, Opaque{msg})
						return
					}
					panic(r)
				}
			}()
		}
	}
	switch instr := instr.(type) {
	case *ssa.DebugRef:

	case *ssa.UnOp:
		fr.set(instr, e.unop(fr, instr, fr.get(instr.X)))

	case *ssa.BinOp:
		fr.set(instr, e.binop(fr, instr.Op, instr.X.Type(), instr.Y.Type(), fr.get(instr.X), fr.get(instr.Y)))

	case *ssa.Call:
		fn, args := e.prepareCall(fr, &instr.Call)
		r := e.call(fr, fn, args)
		fr.curInstr = instr
		fr.set(instr, r)

	case *ssa.ChangeInterface:
		fr.set(instr, fr.get(instr.X))

	case *ssa.ChangeType:
		fr.set(instr, fr.get(instr.X))

	case *ssa.Convert:
		fr.set(instr, e.conv(fr, instr.Type(), instr.X.Type(), fr.get(instr.X)))

	case *ssa.SliceToArrayPointer:
		fr.set(instr, e.sliceToArrayPointer(fr, instr.Type(), fr.get(instr.X)))

	case *ssa.MultiConvert:
		fr.set(instr, e.conv(fr, instr.Type(), instr.X.Type(), fr.get(instr.X)))

	case *ssa.MakeInterface:
		fr.set(instr, Iface{T: instr.X.Type(), V: fr.get(instr.X)})

	case *ssa.Extract:
		t, ok := fr.get(instr.Tuple).(Tuple)
		if !ok {
			e.unsupported(fr, "extract from non-tuple %s", describe(fr.get(instr.Tuple)))
		}
		fr.set(instr, t[instr.Index])

	case *ssa.Slice:
		fr.set(instr, e.slice(fr, instr, fr.get(instr.X), fr.get(instr.Low), fr.get(instr.High), fr.get(instr.Max)))

	case *ssa.Return:
		switch len(instr.Results) {
		case 0:
		case 1:
			fr.result = fr.get(instr.Results[0])
		default:
			res := make(Tuple, len(instr.Results))
			for i, r := range instr.Results {
				res[i] = fr.get(r)
			}
			fr.result = res
		}
		fr.block = nil
		return kReturn

	case *ssa.RunDefers:
		fr.runDefers()

	case *ssa.Panic:
		panic(goPanic{v: fr.get(instr.X), pos: fr.pos()})

	case *ssa.Send:
		e.unsupported(fr, "channel send")

	case *ssa.Store:
		e.store(fr, fr.get(instr.Addr), fr.get(instr.Val))

	case *ssa.If:
		cond, ok := fr.get(instr.Cond).(*Term)
		if !ok {
			e.unsupported(fr, "branch on %s", describe(fr.get(instr.Cond)))
		}
		if !cond.IsConst() && e.tryIfConvert(fr, instr, cond) {
			return kJump
		}
		succ := 1
		if e.branch(fr, cond) {
			succ = 0
		}
		fr.prevBlock, fr.block = fr.block, fr.block.Succs[succ]
		return kJump

	case *ssa.Jump:
		fr.prevBlock, fr.block = fr.block, fr.block.Succs[0]
		return kJump

	case *ssa.Defer:
		if instr.DeferStack != nil {
			e.unsupported(fr, "defer with explicit defer stack (range-over-func)")
		}
		fn, args := e.prepareCall(fr, &instr.Call)
		fr.defers = &deferred{fn: fn, args: args, instr: instr, tail: fr.defers}

	case *ssa.Go:
		e.unsupported(fr, "go statement")

	case *ssa.MakeChan:
		e.chanID++
		fr.set(instr, Chan{id: e.chanID})

	case *ssa.Alloc:
		cell := new(Value)
		*cell = zero(deref(instr.Type()))
		fr.set(instr, Ptr{p: cell})

	case *ssa.MakeSlice:
		n := e.concreteInt(fr, fr.get(instr.Len), "make len")
		c := e.concreteInt(fr, fr.get(instr.Cap), "make cap")
		if n < 0 || c < n {
			e.goPanicf(fr, "runtime error: makeslice: len out of range")
		}
		if c > int64(e.eng.conf.MaxAlloc) {
			e.abort("alloc", "make of %d elements exceeds engine allocation cap %d at %s", c, e.eng.conf.MaxAlloc, fr.pos())
		}
		e.noteAlloc(fr, c)
		tElt := instr.Type().Underlying().(*types.Slice).Elem()
		s := make([]Value, c)
		z := zero(tElt)
		for i := range s {
			s[i] = copyVal(z)
		}
		fr.set(instr, Slice{v: s[:n]})

	case *ssa.MakeMap:
		fr.set(instr, NewMap(instr.Type().Underlying().(*types.Map).Key()))

	case *ssa.Range:
		fr.set(instr, e.rangeIter(fr, fr.get(instr.X)))

	case *ssa.Next:
		fr.set(instr, fr.get(instr.Iter).(*Iter).next(e, fr))

	case *ssa.FieldAddr:
		p := e.ptr(fr, fr.get(instr.X))
		if p.p == nil {
			e.nilDeref(fr)
		}
		st, ok := (*p.p).(Struct)
		if !ok {
			e.unsupported(fr, "FieldAddr on %s", describe(*p.p))
		}
		fr.set(instr, Ptr{p: &st[instr.Field], ro: p.ro})

	case *ssa.Field:
		st, ok := fr.get(instr.X).(Struct)
		if !ok {
			e.unsupported(fr, "Field on %s", describe(fr.get(instr.X)))
		}
		fr.set(instr, st[instr.Field])

	case *ssa.IndexAddr:
		x := fr.get(instr.X)
		switch x := x.(type) {
		case Slice:
			if sp, ok := e.symElemPtr(fr, x.v, fr.get(instr.Index), isSignedT(instr.Index.Type()), x.ro); ok {
				fr.set(instr, sp)
				break
			}
			i := e.indexConcrete(fr, fr.get(instr.Index), len(x.v), isSignedT(instr.Index.Type()))
			fr.set(instr, Ptr{p: &x.v[i], ro: x.ro})
		case Ptr:
			if x.p == nil {
				e.nilDeref(fr)
			}
			arr, ok := (*x.p).(Array)
			if !ok {
				e.unsupported(fr, "IndexAddr through pointer to %s", describe(*x.p))
			}
			if sp, ok := e.symElemPtr(fr, arr, fr.get(instr.Index), isSignedT(instr.Index.Type()), x.ro); ok {
				fr.set(instr, sp)
				break
			}
			i := e.indexConcrete(fr, fr.get(instr.Index), len(arr), isSignedT(instr.Index.Type()))
			fr.set(instr, Ptr{p: &arr[i], ro: x.ro})
		default:
			e.unsupported(fr, "IndexAddr on %s", describe(x))
		}

	case *ssa.Index:
		x := fr.get(instr.X)
		switch x := x.(type) {
		case Array:
			fr.set(instr, e.indexRead(fr, []Value(x), fr.get(instr.Index), isSignedT(instr.Index.Type())))
		case Str:
			fr.set(instr, e.indexStr(fr, x, fr.get(instr.Index), isSignedT(instr.Index.Type())))
		default:
			e.unsupported(fr, "Index on %s", describe(x))
		}

	case *ssa.Lookup:
		fr.set(instr, e.lookup(fr, instr, fr.get(instr.X), fr.get(instr.Index)))

	case *ssa.MapUpdate:
		m, ok := fr.get(instr.Map).(*Map)
		if !ok {
			e.unsupported(fr, "MapUpdate on %s", describe(fr.get(instr.Map)))
		}
		if m == nil {
			e.goPanicf(fr, "assignment to entry in nil map")
		}
		e.mapInsert(fr, m, fr.get(instr.Key), fr.get(instr.Value))

	case *ssa.TypeAssert:
		fr.set(instr, e.typeAssert(fr, instr, fr.get(instr.X)))

	case *ssa.MakeClosure:
		bindings := make([]Value, len(instr.Bindings))
		for i, b := range instr.Bindings {
			bindings[i] = fr.get(b)
		}
		fr.set(instr, &Closure{instr.Fn.(*ssa.Function), bindings})

	case *ssa.Select:
		e.unsupported(fr, "select")

	default:
		e.unsupported(fr, "instruction %T", instr)
	}
	return kNext
}

func deref(t types.Type) types.Type {
	if p, ok := t.Underlying().(*types.Pointer); ok {
		return p.Elem()
	}
	panic("deref of non-pointer " + t.String())
}

func (e *Exec) ptr(fr *frame, v Value) Ptr {
	p, ok := v.(Ptr)
	if !ok {
		e.unsupported(fr, "expected pointer, got %s", describe(v))
	}
	return p
}

func (e *Exec) goPanicf(fr *frame, format string, args ...interface{}) {
	msg := fmt.Sprintf(format, args...)
	panic(goPanic{v: Iface{T: e.eng.runtimeErrorT, V: mkStr(msg)}, pos: fr.pos()})
}

func (e *Exec) nilDeref(fr *frame) {
	e.goPanicf(fr, "runtime error: invalid memory address or nil pointer dereference")
}

// symElemPtr builds a symbolic element pointer when idx is symbolic and all cells are scalars.
func (e *Exec) symElemPtr(fr *frame, cells []Value, idx Value, signed bool, ro bool) (Ptr, bool) {
	t, ok := idx.(*Term)
	if !ok || t.IsConst() {
		return Ptr{}, false
	}
	n := len(cells)
	if n == 0 || n > e.eng.conf.MaxIteTable {
		return Ptr{}, false
	}
	for _, cv := range cells {
		if _, ok := cv.(*Term); !ok {
			return Ptr{}, false
		}
	}
	c := e.ctx
	t64 := c.Resize(t, 64, signed)
	inRange := c.And(c.Cmp(OpSLe, c.Const(64, 0), t64), c.Cmp(OpSLt, t64, c.Const(64, uint64(n))))
	if !e.branch(fr, inRange) {
		e.goPanicf(fr, "runtime error: index out of range [symbolic] with length %d", n)
	}
	return Ptr{symArr: cells, symIdx: t64, ro: ro}, true
}

func (e *Exec) load(fr *frame, pv Value) Value {
	p := e.ptr(fr, pv)
	if p.symArr != nil {
		return e.iteChain(p.symIdx, p.symArr)
	}
	if p.p == nil {
		e.nilDeref(fr)
	}
	v := copyVal(*p.p)
	if p.ro {
		v = freeze(v)
	}
	return v
}

func (e *Exec) store(fr *frame, pv Value, v Value) {
	p := e.ptr(fr, pv)
	if p.symArr != nil {
		if p.ro {
			e.unsupported(fr, "write to shared package-initialisation state")
		}
		nv := v.(*Term)
		for i := range p.symArr {
			old := p.symArr[i].(*Term)
			p.symArr[i] = e.ctx.Ite(e.ctx.Eq(p.symIdx, e.ctx.Const(64, uint64(i))), nv, old)
		}
		return
	}
	if p.p == nil {
		e.nilDeref(fr)
	}
	if p.ro {
		e.unsupported(fr, "write to shared package-initialisation state")
	}
	*p.p = copyVal(v)
}

// ---- calls ----

func (e *Exec) prepareCall(fr *frame, call *ssa.CallCommon) (fn Value, args []Value) {
	v := fr.get(call.Value)
	if call.Method == nil {
		fn = v
	} else {
		recv, ok := v.(Iface)
		if !ok {
			e.unsupported(fr, "method call on %s", describe(v))
		}
		if recv.T == nil {
			e.goPanicf(fr, "runtime error: invalid memory address or nil pointer dereference (method %s on nil interface)", call.Method.Name())
		}
		f := e.eng.lookupMethod(recv.T, call.Method)
		if f == nil {
			e.unsupported(fr, "method %s not found for dynamic type %s", call.Method.Name(), recv.T)
		}
		fn = f
		args = append(args, recv.V)
	}
	for _, a := range call.Args {
		args = append(args, fr.get(a))
	}
	return
}

func (eng *Engine) lookupMethod(t types.Type, m *types.Func) *ssa.Function {
	return eng.prog.LookupMethod(t, m.Pkg(), m.Name())
}

func (e *Exec) call(caller *frame, fn Value, args []Value) Value {
	switch fn := fn.(type) {
	case *ssa.Function:
		if fn == nil {
			e.goPanicf(caller, "runtime error: invalid memory address or nil pointer dereference (call of nil func)")
		}
		return e.callFunction(caller, fn, args, nil)
	case *Closure:
		return e.callFunction(caller, fn.Fn, args, fn.Env)
	case *ssa.Builtin:
		return e.callBuiltin(caller, fn, args)
	case Opaque:
		e.unsupported(caller, "call of opaque function value (%s)", fn.why)
	}
	e.unsupported(caller, "call of %T", fn)
	return nil
}

func (e *Exec) callFunction(caller *frame, fn *ssa.Function, args []Value, env []Value) Value {
	// harness-declared stubs
	if st, ok := e.eng.stubs[fn]; ok && !(caller != nil && caller.fn == st) {
		// (a stub may call the function it replaces: that call reaches the original)
		fn = st
	}
	name := fn.String()
	if fn.Origin() != nil {
		name = fn.Origin().String()
	}
	if in, ok := e.eng.intrinsics[name]; ok {
		e.touchStub(name)
		return in(e, caller, fn, args)
	}
	if fn.Synthetic == "package initializer" && !(e.templateMode && caller == nil) {
		// package initialisation is lazy (triggered by the first global access)
		return nil
	}
	if fn.Blocks == nil {
		if pre, ok := matchPrefixIntrinsic(name); ok {
			e.touchStub(name)
			return pre(e, caller, fn, args)
		}
		e.unsupported(caller, "call of function without Go body: %s", name)
	}
	if !e.templateMode && e.mergeDepth == 0 && !e.eng.conf.NoMerge && (e.eng.mergeFns[name] || e.eng.pureFn(fn, 0)) {
		return e.callMerged(caller, fn, args, env)
	}
	return e.callSSA(caller, fn, args, env)
}

func constantStringVal(c *ssa.Const) string { return constant.StringVal(c.Value) }

var _ = token.NoPos
var _ = strings.Contains
