package main

// Redirection of the os package to the interpreted file system model rt/vfs.go.

import (
	"golang.org/x/tools/go/ssa"
)

var osRedirects = map[string]string{
	"os.OpenFile":              "VOpenFile",
	"os.Open":                  "VOpen",
	"os.Create":                "VCreate",
	"os.CreateTemp":            "VCreateTemp",
	"os.MkdirTemp":             "VMkdirTemp",
	"os.Mkdir":                 "VMkdir",
	"os.MkdirAll":              "VMkdirAll",
	"os.Stat":                  "VStat",
	"os.Lstat":                 "VLstat",
	"os.Symlink":               "VSymlink",
	"os.Readlink":              "VReadlink",
	"os.SameFile":              "VSameFile",
	"os.Remove":                "VRemove",
	"os.RemoveAll":             "VRemoveAll",
	"os.Rename":                "VRename",
	"os.Link":                  "VLink",
	"os.Chmod":                 "VChmod",
	"os.ReadDir":               "VReadDir",
	"os.ReadFile":              "VReadFile",
	"os.WriteFile":             "VWriteFile",
	"os.Getwd":                 "VGetwd",
	"(*os.File).Name":          "VFileName",
	"(*os.File).Close":         "VFileClose",
	"(*os.File).Write":         "VFileWrite",
	"(*os.File).WriteString":   "VFileWriteString",
	"(*os.File).Read":          "VFileRead",
	"(*os.File).ReadAt":        "VFileReadAt",
	"(*os.File).Seek":          "VFileSeek",
	"(*os.File).Stat":          "VFileStat",
	"(*os.File).Chmod":         "VFileChmod",
	"(*os.File).Sync":          "VFileSync",
	"(*os.File).Truncate":      "VFileTruncate",
	"(*os.File).ReadDir":       "VFileReadDir",
	"(*os.File).Readdirnames":  "VFileReaddirnames",
	"(*os.File).Readdir":       "VFileReaddir",
	"(*os.File).ReadFrom":      "VFileReadFrom",
	"(*os.File).WriteTo":       "VFileWriteTo",
}

func registerOS(eng *Engine) {
	for from, to := range osRedirects {
		to := to
		eng.intrinsics[from] = func(e *Exec, fr *frame, fn *ssa.Function, args []Value) Value {
			return e.callSSA(fr, e.eng.stdFunc(rtPath, to), args, nil)
		}
	}
	// unix directory sync (fileutil.SyncDirectory opens the directory and fsyncs it): a no-op in the
	// process-crash model; the power-loss harnesses wrap it in their operation tables.
	eng.intrinsics["github.com/pdfcpu/pdfcpu/internal/fileutil.SyncDirectory"] = func(e *Exec, fr *frame, fn *ssa.Function, args []Value) Value {
		return Iface{}
	}
	eng.intrinsics["path/filepath.Abs"] = func(e *Exec, fr *frame, fn *ssa.Function, args []Value) Value {
		s := strArg(e, fr, args[0])
		r := e.callSSA(fr, e.eng.stdFunc(rtPath, "VAbs"), []Value{mkStr(s)}, nil)
		return Tuple{r, Iface{}}
	}
}
