package main

func registerOS(eng *Engine) {}
