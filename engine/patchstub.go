package main

// gosym -patchstubs spec.json: source-level stub injection for NATIVE replay.
// For each stubbed function the defining file is copied with the function renamed
// to <name>__verifOrig and a wrapper added that calls the harness stub while the
// named harness is running (vp.Harness()), and the original otherwise. The
// copies are used through `go test -overlay`; /repo is not touched.

import (
	"bytes"
	"encoding/json"
	"fmt"
	"go/ast"
	"go/format"
	"go/parser"
	"go/token"
	"os"
	"path/filepath"
	"strings"

	"golang.org/x/tools/go/ast/astutil"
)

type stubSpec struct {
	Dir     string `json:"dir"`     // package directory
	Func    string `json:"func"`    // function name or "(*T).Method" / "(T).Method"
	Stub    string `json:"stub"`    // stub function name (same package)
	Harness string `json:"harness"` // harness for which the stub is active
}

type patchOut struct {
	Replace map[string]string `json:"replace"` // original path -> patched copy
}

func recvTypeName(fd *ast.FuncDecl) string {
	if fd.Recv == nil || len(fd.Recv.List) == 0 {
		return ""
	}
	t := fd.Recv.List[0].Type
	ptr := false
	if st, ok := t.(*ast.StarExpr); ok {
		ptr = true
		t = st.X
	}
	if ix, ok := t.(*ast.IndexExpr); ok {
		t = ix.X
	}
	id, ok := t.(*ast.Ident)
	if !ok {
		return "?"
	}
	if ptr {
		return "(*" + id.Name + ")"
	}
	return "(" + id.Name + ")"
}

func patchStubs(specPath, outDir, overlayDir string) error {
	data, err := os.ReadFile(specPath)
	if err != nil {
		return err
	}
	var specs []stubSpec
	if err := json.Unmarshal(data, &specs); err != nil {
		return err
	}
	type key struct{ dir, fn string }
	groups := map[key][]stubSpec{}
	var order []key
	for _, s := range specs {
		k := key{s.Dir, s.Func}
		if _, ok := groups[k]; !ok {
			order = append(order, k)
		}
		groups[k] = append(groups[k], s)
	}
	out := patchOut{Replace: map[string]string{}}
	fset := token.NewFileSet()
	parsed := map[string]*ast.File{}
	for _, k := range order {
		files, _ := filepath.Glob(filepath.Join(k.dir, "*.go"))
		found := false
		for _, f := range files {
			if strings.HasSuffix(f, "_test.go") {
				continue
			}
			af := parsed[f]
			if af == nil {
				af, err = parser.ParseFile(fset, f, nil, parser.ParseComments)
				if err != nil {
					return err
				}
			}
			for _, d := range af.Decls {
				fd, ok := d.(*ast.FuncDecl)
				if !ok || fd.Body == nil {
					continue
				}
				name := fd.Name.Name
				if r := recvTypeName(fd); r != "" {
					name = r + "." + name
				}
				if name != k.fn {
					continue
				}
				found = true
				parsed[f] = af
				orig := fd.Name.Name
				fd.Name = ast.NewIdent(orig + "__verifOrig")
				// wrapper
				wrapper := &ast.FuncDecl{Recv: fd.Recv, Name: ast.NewIdent(orig), Type: cloneFuncType(fd.Type)}
				args, ell := nameParams(wrapper.Type)
				recvExpr := ""
				if fd.Recv != nil {
					rf := fd.Recv.List[0]
					if len(rf.Names) == 0 || rf.Names[0].Name == "_" {
						rf2 := *rf
						rf2.Names = []*ast.Ident{ast.NewIdent("verifRecv")}
						wrapper.Recv = &ast.FieldList{List: []*ast.Field{&rf2}}
						recvExpr = "verifRecv"
					} else {
						recvExpr = rf.Names[0].Name
					}
				}
				var body bytes.Buffer
				ret := ""
				if wrapper.Type.Results != nil && len(wrapper.Type.Results.List) > 0 {
					ret = "return "
				}
				callArgs := strings.Join(args, ", ")
				if ell {
					callArgs += "..."
				}
				for _, s := range groups[k] {
					stubArgs := callArgs
					if recvExpr != "" {
						if stubArgs == "" {
							stubArgs = recvExpr
						} else {
							stubArgs = recvExpr + ", " + stubArgs
						}
					}
					key := s.Harness + "/" + orig
					fmt.Fprintf(&body, "if vp.Harness() == %q && vp.EnterStub(%q) {\ndefer vp.LeaveStub(%q)\n%s%s(%s)\n", s.Harness, key, key, ret, s.Stub, stubArgs)
					if ret == "" {
						body.WriteString("return\n")
					}
					body.WriteString("}\n")
				}
				target := orig + "__verifOrig"
				if recvExpr != "" {
					target = recvExpr + "." + target
				}
				fmt.Fprintf(&body, "%s%s(%s)\n", ret, target, callArgs)
				bexpr, err := parser.ParseFile(token.NewFileSet(), "", "package p\nfunc f() {\n"+body.String()+"}\n", 0)
				if err != nil {
					return fmt.Errorf("wrapper body: %v\n%s", err, body.String())
				}
				wrapper.Body = bexpr.Decls[0].(*ast.FuncDecl).Body
				stripPos(wrapper.Body)
				af.Decls = append(af.Decls, wrapper)
				astutil.AddImport(fset, af, vpPath)
			}
		}
		if !found {
			return fmt.Errorf("stub target %s not found in %s", k.fn, k.dir)
		}
	}
	i := 0
	for f, af := range parsed {
		var buf bytes.Buffer
		// wrappers were built without positions: print via format.Node on a fresh fileset copy
		if err := format.Node(&buf, fset, af); err != nil {
			return fmt.Errorf("format %s: %v", f, err)
		}
		dst := filepath.Join(outDir, fmt.Sprintf("patched_%d_%s", i, filepath.Base(f)))
		i++
		if err := os.WriteFile(dst, buf.Bytes(), 0o644); err != nil {
			return err
		}
		out.Replace[f] = dst
	}
	enc, _ := json.MarshalIndent(out, "", " ")
	fmt.Println(string(enc))
	return nil
}

func stripPos(n ast.Node) {
	ast.Inspect(n, func(x ast.Node) bool {
		switch v := x.(type) {
		case *ast.Ident:
			v.NamePos = token.NoPos
		case *ast.BasicLit:
			v.ValuePos = token.NoPos
		case *ast.CallExpr:
			v.Lparen, v.Rparen, v.Ellipsis = token.NoPos, token.NoPos, v.Ellipsis
		case *ast.BlockStmt:
			v.Lbrace, v.Rbrace = token.NoPos, token.NoPos
		case *ast.IfStmt:
			v.If = token.NoPos
		case *ast.ReturnStmt:
			v.Return = token.NoPos
		case *ast.DeferStmt:
			v.Defer = token.NoPos
		case *ast.BinaryExpr:
			v.OpPos = token.NoPos
		}
		return true
	})
}

func cloneFuncType(t *ast.FuncType) *ast.FuncType {
	nt := &ast.FuncType{TypeParams: t.TypeParams, Results: t.Results}
	if t.Params != nil {
		nt.Params = &ast.FieldList{}
		for _, f := range t.Params.List {
			nf := *f
			nf.Names = append([]*ast.Ident{}, f.Names...)
			nt.Params.List = append(nt.Params.List, &nf)
		}
	}
	return nt
}

// nameParams gives every parameter a name and returns the argument list (ell: last is variadic).
func nameParams(t *ast.FuncType) (args []string, ell bool) {
	if t.Params == nil {
		return nil, false
	}
	n := 0
	for _, f := range t.Params.List {
		if _, ok := f.Type.(*ast.Ellipsis); ok {
			ell = true
		}
		if len(f.Names) == 0 {
			name := fmt.Sprintf("verifArg%d", n)
			n++
			f.Names = []*ast.Ident{ast.NewIdent(name)}
			args = append(args, name)
			continue
		}
		for i, id := range f.Names {
			if id.Name == "_" {
				name := fmt.Sprintf("verifArg%d", n)
				n++
				f.Names[i] = ast.NewIdent(name)
				args = append(args, name)
			} else {
				args = append(args, id.Name)
			}
		}
	}
	return args, ell
}
