package main

// Symbolic integer formatting: strconv's formatBits indexes a 200-byte digit
// table with a symbolic offset, which would fork 100 ways per digit pair. These
// intrinsics fork only on the sign and the number of digits and emit each
// digit as an arithmetic term.

import (
	"strconv"

	"golang.org/x/tools/go/ssa"
)

// symFormat renders v (width 64; signed decides interpretation) in base 10 or 16.
func (e *Exec) symFormat(fr *frame, v *Term, signed bool, base int) Str {
	c := e.ctx
	if v.IsConst() {
		if signed {
			return mkStr(strconv.FormatInt(int64(v.val), base))
		}
		return mkStr(strconv.FormatUint(v.val, base))
	}
	neg := false
	mag := v
	if signed {
		if e.branch(fr, c.Cmp(OpSLt, v, c.Const(64, 0))) {
			neg = true
			mag = c.Neg(v)
		}
	}
	// number of digits
	n := 1
	pow := uint64(base)
	maxDigits := 20
	if base == 16 {
		maxDigits = 16
	}
	for n < maxDigits {
		if !e.branch(fr, c.Cmp(OpULe, c.Const(64, pow), mag)) {
			break
		}
		n++
		if n == maxDigits {
			break
		}
		hi, lo := mulOverflow(pow, uint64(base))
		if hi {
			break
		}
		pow = lo
	}
	ts := make([]*Term, 0, n+1)
	if neg {
		ts = append(ts, byteConsts['-'])
	}
	div := uint64(1)
	divs := make([]uint64, n)
	for i := 0; i < n; i++ {
		divs[n-1-i] = div
		if i < n-1 {
			div *= uint64(base)
		}
	}
	for i := 0; i < n; i++ {
		var d *Term
		if base == 16 {
			sh := uint64(4 * (n - 1 - i))
			d = c.BinBV(OpBAnd, c.BinBV(OpLShr, mag, c.Const(64, sh)), c.Const(64, 15))
		} else {
			d = c.BinBV(OpURem, c.BinBV(OpUDiv, mag, c.Const(64, divs[i])), c.Const(64, 10))
		}
		d8 := c.Extract(d, 7, 0)
		if base == 16 {
			ts = append(ts, c.Ite(c.Cmp(OpULt, d8, c.Const(8, 10)), c.BinBV(OpAdd, d8, c.Const(8, '0')), c.BinBV(OpAdd, d8, c.Const(8, 'a'-10))))
		} else {
			ts = append(ts, c.BinBV(OpAdd, d8, c.Const(8, '0')))
		}
	}
	return strFromTerms(ts)
}

func mulOverflow(a, b uint64) (bool, uint64) {
	if a != 0 && b > ^uint64(0)/a {
		return true, 0
	}
	return false, a * b
}

func registerStrconv(in map[string]intrinsicFn) {
	baseOf := func(e *Exec, fr *frame, v Value) int {
		return int(e.concreteInt(fr, v, "strconv base"))
	}
	wrap := func(name string, signed bool, hasBase bool, appendTo bool) {
		in["strconv."+name] = func(e *Exec, fr *frame, fn *ssa.Function, args []Value) Value {
			ai := 0
			var dst Slice
			if appendTo {
				dst = args[0].(Slice)
				ai = 1
			}
			v := args[ai].(*Term)
			base := 10
			if hasBase {
				base = baseOf(e, fr, args[ai+1])
			}
			if !v.IsConst() && base != 10 && base != 16 {
				return e.callSSA(fr, fn, args, nil)
			}
			v64 := e.ctx.Resize(v, 64, signed)
			s := e.symFormat(fr, v64, signed, base)
			if !appendTo {
				return s
			}
			var add []Value
			for _, t := range s.Terms() {
				add = append(add, t)
			}
			return e.appendValues(fr, dst, add)
		}
	}
	wrap("FormatInt", true, true, false)
	wrap("FormatUint", false, true, false)
	wrap("Itoa", true, false, false)
	wrap("AppendInt", true, true, true)
	wrap("AppendUint", false, true, true)
}
