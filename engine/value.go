package main

// Value representation of the symbolic interpreter (modelled on x/tools/go/ssa/interp).
//
//  *Term          bool and every integer kind (sort Bool / BitVec w)
//  Float          float32/float64, always concrete
//  Str            strings: concrete-length vector of byte terms
//  Ptr            pointers (*Value into a cell, struct field or array element)
//  Slice          slices ([]Value window with Go slice semantics)
//  Struct, Array  aggregates (value semantics: copied on load/store)
//  Iface          interfaces (dynamic type + value); nil interface has T == nil
//  *Map           maps (nil map is (*Map)(nil))
//  *ssa.Function, *ssa.Builtin, *Closure   functions
//  Tuple          multi-value results
//  *Iter          range iterators
//  Opaque         poison for things the engine does not model (faults if used)

import (
	"fmt"
	"go/types"
	"strings"

	"golang.org/x/tools/go/ssa"
)

type Value interface{}

type Float struct {
	F    float64
	Bits int
}

type Complex struct {
	C    complex128
	Bits int
}

type Str struct {
	s   string  // valid when sym == nil
	sym []*Term // 8-bit terms (at least one non-constant), or nil
}

type Ptr struct {
	p  *Value
	ro bool // points into the shared, frozen initialisation template
	// for pointers to array values, elem addressing uses the Array in *p.
	tag *ptrTag // optional identity info (for unsafe.Pointer conversions etc.)
	// symbolic element pointer: &symArr[symIdx] with scalar cells (p == nil)
	symArr []Value
	symIdx *Term
}

type ptrTag struct{ typ types.Type }

type Slice struct {
	v   []Value
	ro  bool
	nil bool
}

type Struct []Value
type Array []Value
type Tuple []Value

type Iface struct {
	T types.Type
	V Value
}

type Closure struct {
	Fn  *ssa.Function
	Env []Value
}

type Opaque struct{ why string }

type Chan struct{ id int }

type mapEntry struct {
	k, v    Value
	deleted bool
}

type Map struct {
	entries []*mapEntry
	index   map[string]int // canonical concrete key -> entries index
	ro      bool
	keyT    types.Type
	n       int
}

func NewMap(keyT types.Type) *Map { return &Map{index: map[string]int{}, keyT: keyT} }

// ---- strings ----

func mkStr(s string) Str { return Str{s: s} }

func (s Str) Len() int {
	if s.sym != nil {
		return len(s.sym)
	}
	return len(s.s)
}

func (s Str) IsConc() bool { return s.sym == nil }

func (s Str) At(i int) *Term {
	if s.sym != nil {
		return s.sym[i]
	}
	return byteConsts[s.s[i]]
}

func (s Str) Terms() []*Term {
	if s.sym != nil {
		return s.sym
	}
	ts := make([]*Term, len(s.s))
	for i := 0; i < len(s.s); i++ {
		ts[i] = byteConsts[s.s[i]]
	}
	return ts
}

func strFromTerms(ts []*Term) Str {
	conc := true
	for _, t := range ts {
		if !t.IsConst() {
			conc = false
			break
		}
	}
	if conc {
		b := make([]byte, len(ts))
		for i, t := range ts {
			b[i] = byte(t.val)
		}
		return Str{s: string(b)}
	}
	cp := make([]*Term, len(ts))
	copy(cp, ts)
	return Str{sym: cp}
}

func (s Str) Slice(i, j int) Str {
	if s.sym != nil {
		return strFromTerms(s.sym[i:j])
	}
	return Str{s: s.s[i:j]}
}

func strConcat(a, b Str) Str {
	if a.sym == nil && b.sym == nil {
		return Str{s: a.s + b.s}
	}
	ts := append(append([]*Term{}, a.Terms()...), b.Terms()...)
	return strFromTerms(ts)
}

// ---- helpers ----

func isNilPtr(p Ptr) bool { return p.p == nil }

func underlying(t types.Type) types.Type { return t.Underlying() }

// zero returns the zero value of type t.
func zero(t types.Type) Value {
	switch t := t.(type) {
	case *types.Basic:
		if t.Kind() == types.UntypedNil {
			panic("untyped nil has no zero value")
		}
		if t.Info()&types.IsUntyped != 0 {
			t = types.Default(t).(*types.Basic)
		}
		switch t.Kind() {
		case types.Bool:
			return globalFalse
		case types.Int, types.Int64, types.Uint, types.Uint64, types.Uintptr:
			return mkConst(64, 0)
		case types.Int8, types.Uint8:
			return mkConst(8, 0)
		case types.Int16, types.Uint16:
			return mkConst(16, 0)
		case types.Int32, types.Uint32:
			return mkConst(32, 0)
		case types.Float32:
			return Float{0, 32}
		case types.Float64:
			return Float{0, 64}
		case types.Complex64:
			return Complex{0, 64}
		case types.Complex128:
			return Complex{0, 128}
		case types.String:
			return Str{}
		case types.UnsafePointer:
			return Ptr{}
		default:
			panic(fmt.Sprint("zero for unexpected type:", t))
		}
	case *types.Pointer:
		return Ptr{}
	case *types.Array:
		a := make(Array, t.Len())
		for i := range a {
			a[i] = zero(t.Elem())
		}
		return a
	case *types.Named, *types.Alias:
		return zero(t.Underlying())
	case *types.Interface:
		return Iface{}
	case *types.Slice:
		return Slice{nil: true}
	case *types.Struct:
		s := make(Struct, t.NumFields())
		for i := range s {
			s[i] = zero(t.Field(i).Type())
		}
		return s
	case *types.Tuple:
		if t.Len() == 1 {
			return zero(t.At(0).Type())
		}
		s := make(Tuple, t.Len())
		for i := range s {
			s[i] = zero(t.At(i).Type())
		}
		return s
	case *types.Chan:
		return Chan{}
	case *types.Map:
		return (*Map)(nil)
	case *types.Signature:
		return (*ssa.Function)(nil)
	case *types.TypeParam:
		panic("zero of type parameter " + t.String())
	}
	panic(fmt.Sprint("zero: unexpected ", t))
}

// copyVal returns a copy of v (deep for aggregates with value semantics).
func copyVal(v Value) Value {
	switch v := v.(type) {
	case Struct:
		a := make(Struct, len(v))
		for i := range v {
			a[i] = copyVal(v[i])
		}
		return a
	case Array:
		a := make(Array, len(v))
		for i := range v {
			a[i] = copyVal(v[i])
		}
		return a
	case Tuple:
		a := make(Tuple, len(v))
		copy(a, v)
		return a
	}
	return v
}

// freeze marks every reference directly contained in v (not through pointers) read-only.
func freeze(v Value) Value {
	switch v := v.(type) {
	case Ptr:
		if v.p != nil {
			v.ro = true
		}
		return v
	case Slice:
		v.ro = true
		return v
	case *Map:
		if v != nil && !v.ro {
			// maps are reference objects shared with the template: copy-on-read shallow clone
			return v.frozenView()
		}
		return v
	case Struct:
		a := make(Struct, len(v))
		for i := range v {
			a[i] = freeze(v[i])
		}
		return a
	case Array:
		a := make(Array, len(v))
		for i := range v {
			a[i] = freeze(v[i])
		}
		return a
	case Iface:
		v.V = freeze(v.V)
		return v
	case *Closure:
		if v == nil {
			return v
		}
		env := make([]Value, len(v.Env))
		for i := range env {
			env[i] = freeze(v.Env[i])
		}
		return &Closure{Fn: v.Fn, Env: env}
	}
	return v
}

func (m *Map) frozenView() *Map {
	return &Map{entries: m.entries, index: m.index, ro: true, keyT: m.keyT, n: m.n}
}

// canonical key for fully concrete hashable values; ok=false when symbolic.
func canonKey(v Value) (string, bool) {
	var sb strings.Builder
	if !canonKeyTo(&sb, v) {
		return "", false
	}
	return sb.String(), true
}

func canonKeyTo(sb *strings.Builder, v Value) bool {
	switch v := v.(type) {
	case *Term:
		if !v.IsConst() {
			return false
		}
		fmt.Fprintf(sb, "i%d:%d;", v.sort.W, v.val)
	case Str:
		if !v.IsConc() {
			return false
		}
		fmt.Fprintf(sb, "s%d:%s;", len(v.s), v.s)
	case Float:
		fmt.Fprintf(sb, "f%v;", v.F)
	case Ptr:
		fmt.Fprintf(sb, "p%p;", v.p)
	case Iface:
		if v.T == nil {
			sb.WriteString("nil;")
			return true
		}
		fmt.Fprintf(sb, "I%s:", v.T.String())
		return canonKeyTo(sb, v.V)
	case Struct:
		sb.WriteString("{")
		for _, f := range v {
			if !canonKeyTo(sb, f) {
				return false
			}
		}
		sb.WriteString("}")
	case Array:
		sb.WriteString("[")
		for _, f := range v {
			if !canonKeyTo(sb, f) {
				return false
			}
		}
		sb.WriteString("]")
	case Chan:
		fmt.Fprintf(sb, "c%d;", v.id)
	default:
		panic(fmt.Sprintf("canonKey: unhashable %T", v))
	}
	return true
}

func describe(v Value) string {
	switch v := v.(type) {
	case *Term:
		return v.String()
	case Str:
		if v.IsConc() {
			return fmt.Sprintf("%q", v.s)
		}
		return fmt.Sprintf("<symstr len %d>", len(v.sym))
	case Iface:
		if v.T == nil {
			return "nil-iface"
		}
		return fmt.Sprintf("iface(%s, %s)", v.T, describe(v.V))
	case Ptr:
		return fmt.Sprintf("ptr(%p)", v.p)
	case Opaque:
		return "opaque(" + v.why + ")"
	}
	return fmt.Sprintf("%T", v)
}
