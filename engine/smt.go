package main

// SMT-LIB2 printing of terms in two encodings, with let-sharing of DAG nodes.

import (
	"fmt"
	"math/big"
	"math/bits"
	"strings"
)

type Encoding int

const (
	EncBV Encoding = iota
	EncInt
)

type unsupportedEnc struct{ msg string }

type printer struct {
	enc   Encoding
	names map[int]string
	sb    *strings.Builder
}

func pow2(w int) string { return bigPow2(w).String() }

func constBig(t *Term) *big.Int {
	v := new(big.Int).SetUint64(t.hi)
	v.Lsh(v, 64)
	v.Or(v, new(big.Int).SetUint64(t.val))
	return v
}

// smtAssert renders (assert t) with shared subterms bound by nested lets.
func smtTerm(t *Term, enc Encoding) string {
	// count references
	refs := map[int]int{}
	var order []*Term
	var walk func(x *Term)
	walk = func(x *Term) {
		if x.op == OpConst || x.op == OpVar {
			return
		}
		refs[x.id]++
		if refs[x.id] > 1 {
			return
		}
		for _, a := range x.args {
			walk(a)
		}
		order = append(order, x) // post-order: children first
	}
	walk(t)
	p := &printer{enc: enc, names: map[int]string{}, sb: &strings.Builder{}}
	nlets := 0
	for _, x := range order {
		if refs[x.id] > 1 && x != t {
			name := fmt.Sprintf("?s%d", x.id)
			p.sb.WriteString("(let ((")
			p.sb.WriteString(name)
			p.sb.WriteString(" ")
			p.expr(x)
			p.sb.WriteString(")) ")
			p.names[x.id] = name
			nlets++
		}
	}
	p.expr(t)
	for i := 0; i < nlets; i++ {
		p.sb.WriteString(")")
	}
	return p.sb.String()
}

func (p *printer) expr(t *Term) {
	if n, ok := p.names[t.id]; ok && t.op != OpConst && t.op != OpVar {
		p.sb.WriteString(n)
		return
	}
	if p.enc == EncBV {
		p.bv(t)
	} else {
		p.int(t)
	}
}

func (p *printer) app(name string, args ...*Term) {
	p.sb.WriteString("(")
	p.sb.WriteString(name)
	for _, a := range args {
		p.sb.WriteString(" ")
		p.expr(a)
	}
	p.sb.WriteString(")")
}

func (p *printer) bv(t *Term) {
	switch t.op {
	case OpConst:
		if t.sort.IsBool() {
			if t.val != 0 {
				p.sb.WriteString("true")
			} else {
				p.sb.WriteString("false")
			}
			return
		}
		fmt.Fprintf(p.sb, "(_ bv%s %d)", constBig(t).String(), t.sort.W)
	case OpVar:
		p.sb.WriteString(t.name)
	case OpZExt:
		p.app(fmt.Sprintf("(_ zero_extend %d)", t.sort.W-t.args[0].sort.W), t.args[0])
	case OpSExt:
		p.app(fmt.Sprintf("(_ sign_extend %d)", t.sort.W-t.args[0].sort.W), t.args[0])
	case OpExtract:
		p.app(fmt.Sprintf("(_ extract %d %d)", t.p1, t.p2), t.args[0])
	default:
		n, ok := opNames[t.op]
		if !ok {
			panic(fmt.Sprintf("smt bv: op %d", t.op))
		}
		p.app(n, t.args...)
	}
}

// ---- integer encoding ----
// Every bit-vector term of width w is an Int in [0, 2^w).

func (p *printer) signed(t *Term) {
	w := t.sort.W
	// (let ((x t)) (ite (>= x 2^(w-1)) (- x 2^w) x))
	p.sb.WriteString("(let ((?x ")
	p.expr(t)
	fmt.Fprintf(p.sb, ")) (ite (>= ?x %s) (- ?x %s) ?x))", pow2(w-1), pow2(w))
}

// bitwise spells a bitwise operation out bit by bit (small widths only).
func (p *printer) bitwise(op string, a, b *Term, w int) {
	p.sb.WriteString("(let ((?a ")
	p.expr(a)
	p.sb.WriteString(") (?b ")
	p.expr(b)
	p.sb.WriteString(")) (+ 0")
	// only bits that may be set in the result
	for i := 0; i < w; i++ {
		oa, ob := maybeOnes(a)>>uint(i)&1, maybeOnes(b)>>uint(i)&1
		if op == "and" && (oa == 0 || ob == 0) {
			continue
		}
		if op != "and" && oa == 0 && ob == 0 {
			continue
		}
		fmt.Fprintf(p.sb, " (ite (%s (= (mod (div ?a %s) 2) 1) (= (mod (div ?b %s) 2) 1)) %s 0)", op, pow2(i), pow2(i), pow2(i))
	}
	p.sb.WriteString("))")
}

func (p *printer) wrapOpen() { p.sb.WriteString("(mod ") }
func (p *printer) wrapClose(w int) {
	p.sb.WriteString(" ")
	p.sb.WriteString(pow2(w))
	p.sb.WriteString(")")
}

func (p *printer) int(t *Term) {
	w := t.sort.W
	switch t.op {
	case OpConst:
		if t.sort.IsBool() {
			if t.val != 0 {
				p.sb.WriteString("true")
			} else {
				p.sb.WriteString("false")
			}
			return
		}
		p.sb.WriteString(constBig(t).String())
	case OpVar:
		p.sb.WriteString(t.name)
	case OpNot, OpAnd, OpOr, OpIte:
		p.app(opNames[t.op], t.args...)
	case OpEq:
		p.app("=", t.args...)
	case OpAdd:
		if w <= 64 {
			ua, ub := upper(t.args[0]), upper(t.args[1])
			if ua+ub >= ua && ua+ub <= mask(w) {
				p.app("+", t.args...)
				return
			}
		}
		p.wrapOpen()
		p.app("+", t.args...)
		p.wrapClose(w)
	case OpSub:
		p.wrapOpen()
		p.app("-", t.args...)
		p.wrapClose(w)
	case OpMul:
		if w <= 64 {
			if hi, lo := bits.Mul64(upper(t.args[0]), upper(t.args[1])); hi == 0 && lo <= mask(w) {
				p.app("*", t.args...)
				return
			}
		}
		p.wrapOpen()
		p.app("*", t.args...)
		p.wrapClose(w)
	case OpNeg:
		p.wrapOpen()
		p.app("-", t.args...)
		p.wrapClose(w)
	case OpUDiv:
		if t.args[1].IsConst() && (t.args[1].val != 0 || t.args[1].hi != 0) {
			p.app("div", t.args...)
			return
		}
		// SMT-LIB bvudiv by zero = all ones; Go panics before (guarded by executor)
		p.sb.WriteString("(ite (= ")
		p.expr(t.args[1])
		fmt.Fprintf(p.sb, " 0) %s ", new(big.Int).Sub(bigPow2(w), big.NewInt(1)).String())
		p.app("div", t.args...)
		p.sb.WriteString(")")
	case OpURem:
		if t.args[1].IsConst() && (t.args[1].val != 0 || t.args[1].hi != 0) {
			p.app("mod", t.args...)
			return
		}
		p.sb.WriteString("(ite (= ")
		p.expr(t.args[1])
		p.sb.WriteString(" 0) ")
		p.expr(t.args[0])
		p.sb.WriteString(" ")
		p.app("mod", t.args...)
		p.sb.WriteString(")")
	case OpSDiv, OpSRem:
		// truncated division on signed values, spelled out on non-negative operands
		p.sb.WriteString("(let ((?a ")
		p.signed(t.args[0])
		p.sb.WriteString(") (?b ")
		p.signed(t.args[1])
		p.sb.WriteString(")) (let ((?q (ite (= ?b 0) 0 (ite (>= ?a 0) (ite (> ?b 0) (div ?a ?b) (- (div ?a (- ?b)))) (ite (> ?b 0) (- (div (- ?a) ?b)) (div (- ?a) (- ?b))))))) ")
		if t.op == OpSDiv {
			fmt.Fprintf(p.sb, "(ite (= ?b 0) (ite (>= ?a 0) %s 1) (mod ?q %s))", new(big.Int).Sub(bigPow2(w), big.NewInt(1)).String(), pow2(w))
		} else {
			fmt.Fprintf(p.sb, "(mod (- ?a (* ?b ?q)) %s)", pow2(w))
		}
		p.sb.WriteString("))")
	case OpBAnd:
		a, b := t.args[0], t.args[1]
		if a.IsConst() {
			a, b = b, a
		}
		if b.IsConst() && w <= 64 && b.val&(b.val+1) == 0 {
			// mask 2^k-1
			k := 0
			for v := b.val; v != 0; v >>= 1 {
				k++
			}
			p.sb.WriteString("(mod ")
			p.expr(a)
			fmt.Fprintf(p.sb, " %s)", pow2(k))
			return
		}
		if b.IsConst() && w <= 64 && b.val != 0 {
			tz := 0
			for v := b.val; v&1 == 0; v >>= 1 {
				tz++
			}
			hiPart := b.val >> uint(tz)
			if hiPart&(hiPart+1) == 0 {
				k := 0
				for v := hiPart; v != 0; v >>= 1 {
					k++
				}
				// ((a div 2^tz) mod 2^k) * 2^tz
				p.sb.WriteString("(* (mod (div ")
				p.expr(a)
				fmt.Fprintf(p.sb, " %s) %s) %s)", pow2(tz), pow2(k), pow2(tz))
				return
			}
		}
		if b.IsConst() && b.val == 0 {
			p.sb.WriteString("0")
			return
		}
		if w <= 32 {
			p.bitwise("and", a, b, w)
			return
		}
		panic(unsupportedEnc{"int encoding: bvand with non-mask operand"})
	case OpBOr, OpBXor, OpBNot:
		if t.op != OpBNot && disjointBits(t.args[0], t.args[1]) {
			// bit fields that cannot overlap: or/xor is addition
			p.app("+", t.args...)
			return
		}
		if t.op == OpBNot {
			fmt.Fprintf(p.sb, "(- %s ", new(big.Int).Sub(bigPow2(w), big.NewInt(1)).String())
			p.expr(t.args[0])
			p.sb.WriteString(")")
			return
		}
		if w <= 32 {
			if t.op == OpBOr {
				p.bitwise("or", t.args[0], t.args[1], w)
			} else {
				p.bitwise("xor", t.args[0], t.args[1], w)
			}
			return
		}
		panic(unsupportedEnc{"int encoding: " + opNames[t.op]})
	case OpShl:
		if !t.args[1].IsConst() {
			panic(unsupportedEnc{"int encoding: shift by non-constant"})
		}
		k := int(t.args[1].val)
		if k >= w {
			p.sb.WriteString("0")
			return
		}
		if w <= 64 && k < 64 && maybeOnes(t.args[0])<<uint(k)>>uint(k) == maybeOnes(t.args[0]) && maybeOnes(t.args[0])<<uint(k) <= mask(w) {
			p.sb.WriteString("(* ")
			p.expr(t.args[0])
			fmt.Fprintf(p.sb, " %s)", pow2(k))
			return
		}
		p.sb.WriteString("(mod (* ")
		p.expr(t.args[0])
		fmt.Fprintf(p.sb, " %s) %s)", pow2(k), pow2(w))
	case OpLShr:
		if !t.args[1].IsConst() {
			panic(unsupportedEnc{"int encoding: shift by non-constant"})
		}
		k := int(t.args[1].val)
		if k >= w {
			p.sb.WriteString("0")
			return
		}
		p.sb.WriteString("(div ")
		p.expr(t.args[0])
		fmt.Fprintf(p.sb, " %s)", pow2(k))
	case OpAShr:
		if !t.args[1].IsConst() {
			panic(unsupportedEnc{"int encoding: shift by non-constant"})
		}
		k := int(t.args[1].val)
		if k >= w {
			k = w - 1
		}
		p.sb.WriteString("(mod (div ")
		p.signed(t.args[0])
		fmt.Fprintf(p.sb, " %s) %s)", pow2(k), pow2(w))
	case OpULt:
		p.app("<", t.args...)
	case OpULe:
		p.app("<=", t.args...)
	case OpSLt, OpSLe:
		if t.op == OpSLt {
			p.sb.WriteString("(< ")
		} else {
			p.sb.WriteString("(<= ")
		}
		p.signed(t.args[0])
		p.sb.WriteString(" ")
		p.signed(t.args[1])
		p.sb.WriteString(")")
	case OpZExt:
		p.expr(t.args[0])
	case OpSExt:
		p.sb.WriteString("(mod ")
		p.signed(t.args[0])
		fmt.Fprintf(p.sb, " %s)", pow2(w))
	case OpExtract:
		n := t.p1 - t.p2 + 1
		noMod := t.args[0].sort.W <= 64 && n < 64 && upper(t.args[0])>>uint(t.p2) <= mask(n)
		switch {
		case t.p2 == 0 && noMod:
			p.expr(t.args[0])
		case t.p2 == 0:
			p.sb.WriteString("(mod ")
			p.expr(t.args[0])
			fmt.Fprintf(p.sb, " %s)", pow2(n))
		case noMod:
			p.sb.WriteString("(div ")
			p.expr(t.args[0])
			fmt.Fprintf(p.sb, " %s)", pow2(t.p2))
		default:
			p.sb.WriteString("(mod (div ")
			p.expr(t.args[0])
			fmt.Fprintf(p.sb, " %s) %s)", pow2(t.p2), pow2(n))
		}
	case OpConcat:
		p.sb.WriteString("(+ (* ")
		p.expr(t.args[0])
		fmt.Fprintf(p.sb, " %s) ", pow2(t.args[1].sort.W))
		p.expr(t.args[1])
		p.sb.WriteString(")")
	default:
		panic(fmt.Sprintf("smt int: op %d", t.op))
	}
}

func declVar(v *Term, enc Encoding) string {
	if v.sort.IsBool() {
		return fmt.Sprintf("(declare-const %s Bool)", v.name)
	}
	if enc == EncBV {
		return fmt.Sprintf("(declare-const %s %s)", v.name, v.sort)
	}
	return fmt.Sprintf("(declare-const %s Int)\n(assert (and (<= 0 %s) (< %s %s)))", v.name, v.name, v.name, pow2(v.sort.W))
}
