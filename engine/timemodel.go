package main

// Contract model of the time package (DESIGN §3.2): a time.Time is a record of
// civil fields plus the zone offset. time.Date with in-range fields returns
// exactly those fields; day 0 / month 13 normalisation (used by pdfcpu to get
// the length of a month) follows the Gregorian rule written out here.

import (
	"golang.org/x/tools/go/ssa"
)

type TimeRec struct {
	Y, Mo, D, H, Mi, S *Term // 64-bit
	Off                *Term // seconds east of UTC, 64-bit
}

type LocRec struct {
	Off *Term
}

func (e *Exec) timeOf(fr *frame, v Value) (TimeRec, bool) {
	switch t := v.(type) {
	case TimeRec:
		return t, true
	case Struct:
		// zero time.Time
		one := mkConst(64, 1)
		z := mkConst(64, 0)
		return TimeRec{one, one, one, z, z, z, z}, true
	}
	return TimeRec{}, false
}

func (e *Exec) daysIn(y, m *Term) *Term {
	c := e.ctx
	k := func(v uint64) *Term { return c.Const(64, v) }
	rem := func(a *Term, n uint64) *Term { return c.BinBV(OpSRem, a, k(n)) }
	leap := c.Or(c.And(c.Eq(rem(y, 4), k(0)), c.Not(c.Eq(rem(y, 100), k(0)))), c.Eq(rem(y, 400), k(0)))
	is := func(n uint64) *Term { return c.Eq(m, k(n)) }
	thirty := c.Or(c.Or(is(4), is(6)), c.Or(is(9), is(11)))
	return c.Ite(is(2), c.Ite(leap, k(29), k(28)), c.Ite(thirty, k(30), k(31)))
}

func registerTime(in map[string]intrinsicFn) {
	opaque := func(why string) Value { return Opaque{why} }
	in["time.FixedZone"] = func(e *Exec, fr *frame, fn *ssa.Function, args []Value) Value {
		cell := new(Value)
		*cell = LocRec{Off: args[1].(*Term)}
		return Ptr{p: cell}
	}
	in["time.Date"] = func(e *Exec, fr *frame, fn *ssa.Function, args []Value) Value {
		c := e.ctx
		y, mo, d := args[0].(*Term), args[1].(*Term), args[2].(*Term)
		h, mi, s := args[3].(*Term), args[4].(*Term), args[5].(*Term)
		var off *Term
		lp, ok := args[7].(Ptr)
		if !ok || lp.p == nil {
			e.unsupported(fr, "time.Date with nil/opaque location")
		}
		if lr, ok := (*lp.p).(LocRec); ok {
			off = lr.Off
		} else {
			utc := e.load(fr, e.globalPtr(e.eng.stdGlobal("time", "UTC"))).(Ptr)
			if utc.p != lp.p {
				e.unsupported(fr, "time.Date with a location other than UTC or a FixedZone")
			}
			off = c.Const(64, 0)
		}
		k := func(v uint64) *Term { return c.Const(64, v) }
		// month 13 -> January of next year (pdfcpu: time.Month(m+1) with m == 12)
		m13 := c.Eq(mo, k(13))
		y2 := c.Ite(m13, c.BinBV(OpAdd, y, k(1)), y)
		mo2 := c.Ite(m13, k(1), mo)
		// day 0 -> last day of the previous month
		if d.IsConst() && d.val == 0 {
			jan := c.Eq(mo2, k(1))
			y3 := c.Ite(jan, c.BinBV(OpSub, y2, k(1)), y2)
			mo3 := c.Ite(jan, k(12), c.BinBV(OpSub, mo2, k(1)))
			inRange := c.And(c.Cmp(OpSLe, k(1), mo2), c.Cmp(OpSLe, mo2, k(12)))
			if !e.branch(fr, inRange) {
				e.unsupported(fr, "time.Date: month outside 1..13 is not modelled")
			}
			return TimeRec{y3, mo3, e.daysIn(y3, mo3), h, mi, s, off}
		}
		// contract: in-range fields are returned unchanged; anything else is not modelled
		inRange := c.AndN(
			c.Cmp(OpSLe, k(1), mo2), c.Cmp(OpSLe, mo2, k(12)),
			c.Cmp(OpSLe, k(1), d), c.Cmp(OpSLe, d, e.daysIn(y2, mo2)),
			c.Cmp(OpSLe, k(0), h), c.Cmp(OpSLe, h, k(23)),
			c.Cmp(OpSLe, k(0), mi), c.Cmp(OpSLe, mi, k(59)),
			c.Cmp(OpSLe, k(0), s), c.Cmp(OpSLe, s, k(59)))
		if !e.branch(fr, inRange) {
			e.unsupported(fr, "time.Date: out-of-range field normalisation is not modelled")
		}
		return TimeRec{y2, mo2, d, h, mi, s, off}
	}
	field := func(name string, get func(TimeRec) *Term) {
		in["(time.Time)."+name] = func(e *Exec, fr *frame, fn *ssa.Function, args []Value) Value {
			t, ok := e.timeOf(fr, args[0])
			if !ok {
				e.unsupported(fr, "time.Time.%s on a time value that is not modelled (%s)", name, describe(args[0]))
			}
			return get(t)
		}
	}
	field("Year", func(t TimeRec) *Term { return t.Y })
	field("Month", func(t TimeRec) *Term { return t.Mo })
	field("Day", func(t TimeRec) *Term { return t.D })
	field("Hour", func(t TimeRec) *Term { return t.H })
	field("Minute", func(t TimeRec) *Term { return t.Mi })
	field("Second", func(t TimeRec) *Term { return t.S })
	in["(time.Time).Nanosecond"] = func(e *Exec, fr *frame, fn *ssa.Function, args []Value) Value { return mkConst(64, 0) }
	in["(time.Time).Zone"] = func(e *Exec, fr *frame, fn *ssa.Function, args []Value) Value {
		t, ok := e.timeOf(fr, args[0])
		if !ok {
			e.unsupported(fr, "time.Time.Zone on a time value that is not modelled")
		}
		return Tuple{mkStr(""), t.Off}
	}
	in["(time.Time).AddDate"] = func(e *Exec, fr *frame, fn *ssa.Function, args []Value) Value {
		t, ok := e.timeOf(fr, args[0])
		if !ok {
			return opaque("AddDate on unmodelled time")
		}
		c := e.ctx
		// only additions that stay inside the month/year are modelled
		yy, mm, dd := args[1].(*Term), args[2].(*Term), args[3].(*Term)
		nt := TimeRec{c.BinBV(OpAdd, t.Y, yy), c.BinBV(OpAdd, t.Mo, mm), c.BinBV(OpAdd, t.D, dd), t.H, t.Mi, t.S, t.Off}
		k := func(v uint64) *Term { return c.Const(64, v) }
		okRange := c.AndN(c.Cmp(OpSLe, k(1), nt.Mo), c.Cmp(OpSLe, nt.Mo, k(12)), c.Cmp(OpSLe, k(1), nt.D), c.Cmp(OpSLe, nt.D, e.daysIn(nt.Y, nt.Mo)))
		if okRange.IsConst() && okRange.BoolVal() {
			return nt
		}
		// result is only used by callers on early-return paths; keep it opaque instead of forking
		return opaque("AddDate with symbolic carry")
	}
	in["(time.Time).Add"] = func(e *Exec, fr *frame, fn *ssa.Function, args []Value) Value {
		return opaque("time.Time.Add is not modelled")
	}
	in["time.Now"] = func(e *Exec, fr *frame, fn *ssa.Function, args []Value) Value {
		return opaque("time.Now is not modelled")
	}
	in["(time.Time).IsZero"] = func(e *Exec, fr *frame, fn *ssa.Function, args []Value) Value {
		if _, ok := args[0].(Struct); ok {
			return globalTrue
		}
		if _, ok := args[0].(TimeRec); ok {
			return globalFalse
		}
		e.unsupported(fr, "IsZero on unmodelled time")
		return nil
	}
}

func (eng *Engine) stdGlobal(pkgPath, name string) *ssa.Global {
	for _, p := range eng.prog.AllPackages() {
		if p.Pkg.Path() == pkgPath {
			if g, ok := p.Members[name].(*ssa.Global); ok {
				return g
			}
		}
	}
	panic("stdGlobal: " + pkgPath + "." + name)
}
