package main

// If-conversion of side-effect-free control flow.
//
// When a symbolic `If` opens an acyclic region of pure blocks with a single
// exit block J, the region is executed once, speculatively, with edge guards,
// and the phis of J become ite terms; the path does not fork. This is what
// keeps `a && b`, `||` chains, value-selecting switches and branchy byte
// kernels (Paeth) from multiplying paths. Only instructions that cannot panic,
// read or write memory are speculated; calls are allowed to functions that the
// purity analysis below accepts (they are then merged by callMerged).

import (
	"fmt"
	"os"
	"strings"
	"go/token"
	"go/types"
	"sort"
	"sync"

	"golang.org/x/tools/go/ssa"
)

type regionInfo struct {
	ok     bool
	blocks []*ssa.BasicBlock // topological order
	exits  []*ssa.BasicBlock
}

var (
	regionCache sync.Map // *ssa.If -> *regionInfo
	pureCache   sync.Map // *ssa.Function -> bool
)

func scalarType(t types.Type) bool {
	if _, ok := basicIntKind(t); ok {
		return true
	}
	return isBoolT(t)
}

func (eng *Engine) pureInstr(in ssa.Instruction, depth int) bool {
	switch in := in.(type) {
	case *ssa.DebugRef, *ssa.Phi, *ssa.If, *ssa.Jump:
		return true
	case *ssa.BinOp:
		if !scalarType(in.X.Type()) || !scalarType(in.Y.Type()) {
			return false
		}
		switch in.Op {
		case token.QUO, token.REM:
			c, ok := in.Y.(*ssa.Const)
			return ok && c.Value != nil && c.Uint64() != 0
		case token.SHL, token.SHR:
			if k, ok := basicIntKind(in.Y.Type()); ok && k.signed {
				c, isC := in.Y.(*ssa.Const)
				return isC && c.Value != nil && c.Int64() >= 0
			}
		}
		return true
	case *ssa.UnOp:
		if in.Op == token.MUL || in.Op == token.ARROW {
			return false
		}
		return scalarType(in.X.Type())
	case *ssa.Convert:
		return scalarType(in.X.Type()) && scalarType(in.Type())
	case *ssa.ChangeType:
		return scalarType(in.X.Type())
	case *ssa.Call:
		if in.Call.IsInvoke() {
			return false
		}
		switch callee := in.Call.Value.(type) {
		case *ssa.Function:
			return eng.pureFn(callee, depth+1)
		case *ssa.Builtin:
			switch callee.Name() {
			case "min", "max":
				for _, a := range in.Call.Args {
					if !scalarType(a.Type()) {
						return false
					}
				}
				return true
			}
		}
		return false
	}
	return false
}

// pureFn: scalar params/results, acyclic CFG, only pure instructions.
func (eng *Engine) pureFn(fn *ssa.Function, depth int) bool {
	if v, ok := pureCache.Load(fn); ok {
		return v.(bool)
	}
	if depth > 4 || fn.Blocks == nil || len(fn.Blocks) > 40 {
		return false
	}
	name := fn.String()
	if fn.Origin() != nil {
		name = fn.Origin().String()
	}
	if _, isIntr := eng.intrinsics[name]; isIntr {
		// vp.And/Or/Implies/Ite* are pure by construction
		switch name {
		case vpPath + ".And", vpPath + ".Or", vpPath + ".Implies", vpPath + ".IteInt", vpPath + ".IteByte":
			return true
		}
		return false
	}
	if _, stubbed := eng.stubs[fn]; stubbed {
		return false
	}
	res := true
	pureCache.Store(fn, false) // recursion guard
	sig := fn.Signature
	if sig.Recv() != nil || len(fn.FreeVars) > 0 || sig.Results().Len() == 0 {
		res = false
	}
	for i := 0; res && i < sig.Params().Len(); i++ {
		res = scalarType(sig.Params().At(i).Type())
	}
	for i := 0; res && i < sig.Results().Len(); i++ {
		res = scalarType(sig.Results().At(i).Type())
	}
	if res && hasCycle(fn) {
		res = false
	}
	if res {
	outer:
		for _, b := range fn.Blocks {
			for _, in := range b.Instrs {
				if _, isRet := in.(*ssa.Return); isRet {
					continue
				}
				if !eng.pureInstr(in, depth) {
					res = false
					break outer
				}
			}
		}
	}
	pureCache.Store(fn, res)
	if eng.conf.Verbose && !res && strings.Contains(fn.String(), "erif") {
		fmt.Fprintf(os.Stderr, "[pure] %s: not pure\n", fn)
	}
	return res
}

func hasCycle(fn *ssa.Function) bool {
	color := make([]int8, len(fn.Blocks))
	var dfs func(b *ssa.BasicBlock) bool
	dfs = func(b *ssa.BasicBlock) bool {
		color[b.Index] = 1
		for _, s := range b.Succs {
			if color[s.Index] == 1 {
				return true
			}
			if color[s.Index] == 0 && dfs(s) {
				return true
			}
		}
		color[b.Index] = 2
		return false
	}
	return dfs(fn.Blocks[0])
}

func (eng *Engine) pureBlock(b *ssa.BasicBlock) bool {
	if len(b.Instrs) == 0 {
		return false
	}
	switch b.Instrs[len(b.Instrs)-1].(type) {
	case *ssa.Jump, *ssa.If:
	default:
		return false
	}
	for _, in := range b.Instrs {
		if !eng.pureInstr(in, 0) {
			return false
		}
		if ph, ok := in.(*ssa.Phi); ok && !scalarType(ph.Type()) {
			return false
		}
	}
	return true
}

func (eng *Engine) region(instr *ssa.If) *regionInfo {
	if v, ok := regionCache.Load(instr); ok {
		return v.(*regionInfo)
	}
	ri := &regionInfo{}
	B := instr.Block()
	inR := map[*ssa.BasicBlock]bool{}
	var order []*ssa.BasicBlock
	const maxBlocks = 24
	changed := true
	for changed && len(order) < maxBlocks {
		changed = false
		cands := append([]*ssa.BasicBlock{}, B.Succs...)
		for _, r := range order {
			cands = append(cands, r.Succs...)
		}
		for _, x := range cands {
			if x == B || inR[x] {
				continue
			}
			okPreds := true
			for _, p := range x.Preds {
				if p != B && !inR[p] {
					okPreds = false
					break
				}
			}
			if !okPreds || !eng.pureBlock(x) {
				continue
			}
			inR[x] = true
			order = append(order, x)
			changed = true
			if len(order) >= maxBlocks {
				break
			}
		}
	}
	// exits
	exits := map[*ssa.BasicBlock]bool{}
	for _, s := range B.Succs {
		if !inR[s] {
			exits[s] = true
		}
	}
	for _, r := range order {
		for _, s := range r.Succs {
			if !inR[s] {
				exits[s] = true
			}
		}
	}
	if len(exits) >= 1 && len(exits) <= 4 && len(order) > 0 || len(exits) == 1 {
		var exs []*ssa.BasicBlock
		for x := range exits {
			exs = append(exs, x)
		}
		sort.Slice(exs, func(i, j int) bool { return exs[i].Index < exs[j].Index })
		ok := true
		for _, ex := range exs {
			if ex == B {
				ok = false
			}
			for _, in := range ex.Instrs {
				ph, isPhi := in.(*ssa.Phi)
				if !isPhi {
					break
				}
				if !scalarType(ph.Type()) {
					// allowed only if all region edges carry the same SSA value
					var first ssa.Value
					for i, p := range ex.Preds {
						if p == B || inR[p] {
							if first == nil {
								first = ph.Edges[i]
							} else if ph.Edges[i] != first {
								ok = false
							}
						}
					}
				}
			}
		}
		if ok {
			ri.ok = true
			ri.blocks = order
			ri.exits = exs
		}
	}
	regionCache.Store(instr, ri)
	return ri
}

// tryIfConvert executes the pure region opened by instr with guards and lands
// in the exit block with merged phis. Returns false if not applicable.
func (e *Exec) tryIfConvert(fr *frame, instr *ssa.If, cond *Term) bool {
	if e.eng.conf.NoMerge || e.templateMode {
		return false
	}
	ri := e.eng.region(instr)
	if !ri.ok {
		return false
	}
	c := e.ctx
	B := instr.Block()
	type edge struct{ from, to *ssa.BasicBlock }
	eg := map[edge]*Term{}
	addEdge := func(from, to *ssa.BasicBlock, g *Term) {
		k := edge{from, to}
		if old, ok := eg[k]; ok {
			eg[k] = c.Or(old, g)
		} else {
			eg[k] = g
		}
	}
	addEdge(B, B.Succs[0], cond)
	addEdge(B, B.Succs[1], c.Not(cond))
	// values computed in the region are written to the frame's locals directly:
	// SSA dominance guarantees they are only observable through the exit phis.
	for _, x := range ri.blocks {
		// phis
		var phiVals []Value
		nphi := 0
		for _, in := range x.Instrs {
			ph, ok := in.(*ssa.Phi)
			if !ok {
				break
			}
			nphi++
			var val *Term
			for i := len(x.Preds) - 1; i >= 0; i-- {
				g, ok := eg[edge{x.Preds[i], x}]
				if !ok {
					continue
				}
				v, isT := fr.get(ph.Edges[i]).(*Term)
				if !isT {
					return false
				}
				if val == nil {
					val = v
				} else {
					val = c.Ite(g, v, val)
				}
			}
			if val == nil {
				return false
			}
			phiVals = append(phiVals, val)
		}
		for i := 0; i < nphi; i++ {
			fr.set(x.Instrs[i].(*ssa.Phi), phiVals[i])
		}
		// block guard
		var guard *Term
		for _, p := range x.Preds {
			if g, ok := eg[edge{p, x}]; ok {
				if guard == nil {
					guard = g
				} else {
					guard = c.Or(guard, g)
				}
			}
		}
		if guard == nil {
			guard = c.ff
		}
		for _, in := range x.Instrs[nphi:] {
			switch in := in.(type) {
			case *ssa.If:
				cv, ok := fr.get(in.Cond).(*Term)
				if !ok {
					return false
				}
				addEdge(x, x.Succs[0], c.And(guard, cv))
				addEdge(x, x.Succs[1], c.And(guard, c.Not(cv)))
			case *ssa.Jump:
				addEdge(x, x.Succs[0], guard)
			default:
				fr.curInstr = in
				e.steps++
				e.visitInstr(fr, in)
			}
		}
	}
	// choose the exit: one fork per exit block instead of one per path through the region
	inRegion := map[*ssa.BasicBlock]bool{B: true}
	for _, x := range ri.blocks {
		inRegion[x] = true
	}
	exitGuard := func(J *ssa.BasicBlock) *Term {
		g := c.ff
		for _, p := range J.Preds {
			if !inRegion[p] {
				continue
			}
			if eg1, ok := eg[edge{p, J}]; ok {
				g = c.Or(g, eg1)
			}
		}
		return g
	}
	J := ri.exits[len(ri.exits)-1]
	for _, cand := range ri.exits[:len(ri.exits)-1] {
		if e.branch(fr, exitGuard(cand)) {
			J = cand
			break
		}
	}
	if len(ri.exits) > 1 && J == ri.exits[len(ri.exits)-1] {
		// make the remaining exit's guard part of the path condition
		e.assertPC(exitGuard(J))
	}
	var vals []Value
	var phis []*ssa.Phi
	for _, in := range J.Instrs {
		ph, ok := in.(*ssa.Phi)
		if !ok {
			break
		}
		var val Value
		var valT *Term
		for i := len(J.Preds) - 1; i >= 0; i-- {
			if !inRegion[J.Preds[i]] {
				continue
			}
			g, ok := eg[edge{J.Preds[i], J}]
			if !ok {
				continue
			}
			v := fr.get(ph.Edges[i])
			vt, isT := v.(*Term)
			if !isT {
				val = v // non-scalar: region() checked all region edges carry the same value
				continue
			}
			if valT == nil {
				valT = vt
			} else {
				valT = c.Ite(g, vt, valT)
			}
		}
		if valT != nil {
			val = valT
		}
		if val == nil {
			return false
		}
		vals = append(vals, val)
		phis = append(phis, ph)
	}
	for i, ph := range phis {
		fr.set(ph, vals[i])
	}
	fr.skipPhis = true
	// prevBlock: any region predecessor of J (only used for back-edge accounting)
	fr.prevBlock, fr.block = B, J
	e.eng.ifconv.Add(1)
	return true
}
