package main

// regexp support:
//   - regexp.Compile / MustCompile keep the pattern; MatchString on a concrete
//     string runs the real Go regexp engine (exact).
//   - vp.RegexDiffWitness(re, grammar) translates the pattern, with Go's
//     unanchored MatchString search semantics, to an SMT-LIB RegLan and asks the
//     string solver (z3) for a string on which it differs from the reference
//     RegLan supplied by the harness. unsat in both directions is an unbounded
//     language-equivalence result; a witness is returned to the harness, which
//     re-checks it against the real matcher (and natively on replay).

import (
	"bufio"
	"fmt"
	"os/exec"
	"regexp"
	"regexp/syntax"
	"strings"

	"golang.org/x/tools/go/ssa"
)

type RegexVal struct {
	pattern string
	re      *regexp.Regexp
}

func smtStrLit(s string) string {
	var sb strings.Builder
	sb.WriteString("\"")
	for _, r := range s {
		if r == '"' {
			sb.WriteString("\"\"")
		} else if r < 0x20 || r > 0x7e || r == '\\' {
			fmt.Fprintf(&sb, "\\u{%x}", r)
		} else {
			sb.WriteRune(r)
		}
	}
	sb.WriteString("\"")
	return sb.String()
}

func reToSMT(r *syntax.Regexp) (string, error) {
	switch r.Op {
	case syntax.OpEmptyMatch:
		return "(str.to_re \"\")", nil
	case syntax.OpLiteral:
		if r.Flags&syntax.FoldCase != 0 {
			return "", fmt.Errorf("case folding not supported")
		}
		return "(str.to_re " + smtStrLit(string(r.Rune)) + ")", nil
	case syntax.OpCharClass:
		var parts []string
		for i := 0; i+1 < len(r.Rune); i += 2 {
			lo, hi := r.Rune[i], r.Rune[i+1]
			if hi > 0xff {
				hi = 0xff // witnesses are searched over Latin-1 strings
			}
			if lo > hi {
				continue
			}
			parts = append(parts, fmt.Sprintf("(re.range %s %s)", smtStrLit(string(lo)), smtStrLit(string(hi))))
		}
		if len(parts) == 0 {
			return "re.none", nil
		}
		if len(parts) == 1 {
			return parts[0], nil
		}
		return "(re.union " + strings.Join(parts, " ") + ")", nil
	case syntax.OpAnyChar, syntax.OpAnyCharNotNL:
		return "re.allchar", nil
	case syntax.OpCapture:
		return reToSMT(r.Sub[0])
	case syntax.OpStar, syntax.OpPlus, syntax.OpQuest:
		s, err := reToSMT(r.Sub[0])
		if err != nil {
			return "", err
		}
		op := map[syntax.Op]string{syntax.OpStar: "re.*", syntax.OpPlus: "re.+", syntax.OpQuest: "re.opt"}[r.Op]
		return "(" + op + " " + s + ")", nil
	case syntax.OpRepeat:
		s, err := reToSMT(r.Sub[0])
		if err != nil {
			return "", err
		}
		if r.Max < 0 {
			return fmt.Sprintf("(re.++ ((_ re.loop %d %d) %s) (re.* %s))", r.Min, r.Min, s, s), nil
		}
		return fmt.Sprintf("((_ re.loop %d %d) %s)", r.Min, r.Max, s), nil
	case syntax.OpConcat, syntax.OpAlternate:
		var parts []string
		for _, sub := range r.Sub {
			s, err := reToSMT(sub)
			if err != nil {
				return "", err
			}
			parts = append(parts, s)
		}
		op := "re.++"
		if r.Op == syntax.OpAlternate {
			op = "re.union"
		}
		if len(parts) == 1 {
			return parts[0], nil
		}
		return "(" + op + " " + strings.Join(parts, " ") + ")", nil
	}
	return "", fmt.Errorf("regexp operator %s is not supported inside a branch", r.Op)
}

// searchLanguage: the set of strings s with MatchString(s) == true.
func searchLanguage(pattern string) (string, error) {
	re, err := syntax.Parse(pattern, syntax.Perl)
	if err != nil {
		return "", err
	}
	var branches []*syntax.Regexp
	if re.Op == syntax.OpAlternate {
		branches = re.Sub
	} else {
		branches = []*syntax.Regexp{re}
	}
	// an alternation factored by the parser (common prefixes) may hide anchors; work on the unsimplified tree
	var outs []string
	for _, b := range branches {
		elems := []*syntax.Regexp{b}
		if b.Op == syntax.OpConcat {
			elems = b.Sub
		}
		begin, end := false, false
		for len(elems) > 0 && (elems[0].Op == syntax.OpBeginText || elems[0].Op == syntax.OpBeginLine) {
			begin = true
			elems = elems[1:]
		}
		for len(elems) > 0 && (elems[len(elems)-1].Op == syntax.OpEndText || elems[len(elems)-1].Op == syntax.OpEndLine) {
			end = true
			elems = elems[:len(elems)-1]
		}
		body := "(str.to_re \"\")"
		if len(elems) > 0 {
			var parts []string
			for _, e := range elems {
				s, err := reToSMT(e)
				if err != nil {
					return "", err
				}
				parts = append(parts, s)
			}
			if len(parts) == 1 {
				body = parts[0]
			} else {
				body = "(re.++ " + strings.Join(parts, " ") + ")"
			}
		}
		full := body
		if !begin {
			full = "(re.++ re.all " + full + ")"
		}
		if !end {
			full = "(re.++ " + full + " re.all)"
		}
		outs = append(outs, full)
	}
	if len(outs) == 1 {
		return outs[0], nil
	}
	return "(re.union " + strings.Join(outs, " ") + ")", nil
}

// regexDiff asks z3 for a string in L(a) \ L(b); returns (witness, found, error).
func regexDiff(a, b string, timeoutMs int) (string, bool, error) {
	q := fmt.Sprintf("(declare-const w String)\n(assert (str.in_re w %s))\n(assert (not (str.in_re w %s)))\n(assert (<= (str.len w) 12))\n(check-sat)\n(get-value (w))\n", a, b)
	cmd := exec.Command("z3-new", "-in", fmt.Sprintf("-t:%d", timeoutMs))
	cmd.Stdin = strings.NewReader(q)
	out, err := cmd.Output()
	text := string(out)
	sc := bufio.NewScanner(strings.NewReader(text))
	if !sc.Scan() {
		return "", false, fmt.Errorf("no solver answer: %v", err)
	}
	switch strings.TrimSpace(sc.Text()) {
	case "unsat":
		// also without the length bound
		q2 := fmt.Sprintf("(declare-const w String)\n(assert (str.in_re w %s))\n(assert (not (str.in_re w %s)))\n(check-sat)\n", a, b)
		cmd2 := exec.Command("z3-new", "-in", fmt.Sprintf("-t:%d", timeoutMs))
		cmd2.Stdin = strings.NewReader(q2)
		out2, _ := cmd2.Output()
		ans := strings.TrimSpace(strings.SplitN(string(out2), "\n", 2)[0])
		if ans == "unsat" {
			return "", false, nil
		}
		return "", false, fmt.Errorf("unbounded regex difference query answered %q", ans)
	case "sat":
		rest := text[strings.Index(text, "\n")+1:]
		i := strings.Index(rest, "\"")
		j := strings.LastIndex(rest, "\"")
		if i < 0 || j <= i {
			return "", false, fmt.Errorf("cannot parse witness from %q", rest)
		}
		w := rest[i+1 : j]
		w = strings.ReplaceAll(w, "\"\"", "\"")
		// decode \u{..}
		var sb strings.Builder
		for k := 0; k < len(w); {
			if strings.HasPrefix(w[k:], "\\u{") {
				e := strings.Index(w[k:], "}")
				var v int
				fmt.Sscanf(w[k+3:k+e], "%x", &v)
				sb.WriteByte(byte(v))
				k += e + 1
			} else {
				sb.WriteByte(w[k])
				k++
			}
		}
		return sb.String(), true, nil
	}
	return "", false, fmt.Errorf("solver answered %q", strings.TrimSpace(sc.Text()))
}

func registerRegexp(in map[string]intrinsicFn) {
	compile := func(must bool) intrinsicFn {
		return func(e *Exec, fr *frame, fn *ssa.Function, args []Value) Value {
			pat := strArg(e, fr, args[0])
			re, err := regexp.Compile(pat)
			cell := new(Value)
			if err != nil {
				if must {
					e.goPanicf(fr, "regexp: Compile(%q): %v", pat, err)
				}
				return Tuple{Ptr{}, e.call(fr, e.eng.stdFunc("errors", "New"), []Value{mkStr(err.Error())})}
			}
			*cell = RegexVal{pattern: pat, re: re}
			if must {
				return Ptr{p: cell}
			}
			return Tuple{Ptr{p: cell}, Iface{}}
		}
	}
	in["regexp.Compile"] = compile(false)
	in["regexp.MustCompile"] = compile(true)
	getRe := func(e *Exec, fr *frame, v Value) RegexVal {
		if iv, isI := v.(Iface); isI {
			v = iv.V
		}
		p, ok := v.(Ptr)
		if !ok || p.p == nil {
			e.unsupported(fr, "regexp method on nil/opaque Regexp")
		}
		rv, ok := (*p.p).(RegexVal)
		if !ok {
			e.unsupported(fr, "regexp method on unmodelled Regexp")
		}
		return rv
	}
	in["(*regexp.Regexp).MatchString"] = func(e *Exec, fr *frame, fn *ssa.Function, args []Value) Value {
		rv := getRe(e, fr, args[0])
		s, ok := args[1].(Str)
		if !ok || !s.IsConc() {
			e.unsupported(fr, "regexp MatchString on a symbolic string")
		}
		return mkBool(rv.re.MatchString(s.s))
	}
	in["(*regexp.Regexp).String"] = func(e *Exec, fr *frame, fn *ssa.Function, args []Value) Value {
		return mkStr(getRe(e, fr, args[0]).pattern)
	}
	in[vpPath+".RegexDiffWitness"] = func(e *Exec, fr *frame, fn *ssa.Function, args []Value) Value {
		if e.eng.conf.Concrete != nil {
			// replay: differ flag, length, bytes
			differ := e.eng.conf.Concrete.next(e, "bool", 0) != 0
			n := int(e.eng.conf.Concrete.next(e, "choice", 64))
			b := make([]byte, n)
			for i := range b {
				b[i] = byte(e.eng.conf.Concrete.next(e, "u8", 8))
			}
			return Tuple{mkStr(string(b)), mkBool(differ)}
		}
		rv := getRe(e, fr, args[0])
		ref := strArg(e, fr, args[1])
		lang, err := searchLanguage(rv.pattern)
		if err != nil {
			e.unsupported(fr, "regexp %q: %v", rv.pattern, err)
		}
		e.observes = append(e.observes, "pattern="+rv.pattern)
		w, found, err := regexDiff(lang, ref, e.eng.conf.TimeoutMs)
		if err == nil && !found {
			w, found, err = regexDiff(ref, lang, e.eng.conf.TimeoutMs)
		}
		if err != nil {
			e.abort("unknown", "regex language comparison inconclusive: %v", err)
		}
		e.eng.mu.Lock()
		if found {
			e.eng.stats.AssertSat++
		} else {
			e.eng.stats.AssertUnsat += 2
		}
		e.eng.mu.Unlock()
		flag := uint64(0)
		if found {
			flag = 1
		}
		e.draws = append(e.draws, Draw{Kind: "bool", W: 0, Val: fmt.Sprint(flag), term: mkConst(0, flag)})
		e.draws = append(e.draws, Draw{Kind: "choice", W: 64, Val: fmt.Sprint(len(w))})
		for i := 0; i < len(w); i++ {
			e.draws = append(e.draws, Draw{Kind: "u8", W: 8, Val: fmt.Sprint(w[i]), term: byteConsts[w[i]]})
		}
		return Tuple{mkStr(w), mkBool(found)}
	}
}
