package main

import (
	"fmt"
	"go/types"
	"math/big"
	"os"
	"sort"
	"strings"
	"sync"
	"sync/atomic"
	"time"

	"golang.org/x/tools/go/ssa"
)

type Config struct {
	Unwind           int
	MaxSteps         int
	MaxDepth         int
	MaxPaths         int
	MaxViolPaths     int // stop exploring after this many violating paths (outside known findings)
	MaxAlloc         int
	MaxIteTable      int
	MaxConcretize    int
	Workers          int
	SolverKind       string
	Enc              Encoding
	TimeoutMs        int
	Trace            bool
	Verbose          bool
	MapOrderReversed bool
	UnwindViolation  bool // an exceeded unwinding bound is reported as a violation (non-termination), not as an inconclusive path
	NoPortfolio      bool // do not retry unknown answers with fresh solvers in other configurations
	MapRotate        bool // fork over the rotation of every map iteration (first key is arbitrary)
	NoMerge          bool
	ReachTwin        bool // vacuity twin: every vp.Assert is replaced by assert(false)
	Bounds           map[string]int
	Concrete         *ReplayVector // concrete mode: draws come from a recorded vector
	KnownOpen        map[string]bool
	NoDomains        bool
	PanicOK          bool // uncaught panics end the path without being violations
	StackOK          bool
	SolverLog        string
}

type Engine struct {
	prog    *ssa.Program
	conf    Config
	fnInfos sync.Map
	// lazily initialised shared template of package-level variables
	tmplMu      sync.Mutex
	tmplGlobals map[*ssa.Global]*Value
	initState   map[*ssa.Package]int
	tmplExec    *Exec
	tmplOwner   bool

	intrinsics    map[string]intrinsicFn
	stubs         map[*ssa.Function]*ssa.Function
	mergeFns      map[string]bool
	runtimeErrorT types.Type
	stdCache      sync.Map

	// results
	mu         sync.Mutex
	work       [][]int64
	inflight   int
	cond       *sync.Cond
	results    []*PathResult
	touchedFns map[string]int
	touchedStb map[string]int
	stats      Stats
	stop       bool
	violPaths  int
	ifconv     atomic.Int64
	domDecided atomic.Int64
	initialWork [][]int64
	forkSites   map[string]int
	querySites  map[string]int
	unboundedAllocs []string
}

type Stats struct {
	Paths          int
	PathsByStatus  map[string]int
	FeasSat        int
	FeasUnsat      int
	FeasUnknown    int
	AssertSat      int
	AssertUnsat    int
	AssertUnknown  int
	PortfolioRescued int // queries the path's solver could not decide and a fresh solver in another configuration did
	AssertConcrete int
	Decisions      int
	Steps          int64
	SolverTime     time.Duration
	MaxUnwind      int
	Merged         int
	MaxAllocSeen   int64
}

type Draw struct {
	Kind string `json:"kind"` // byte, int, bool, choice ...
	W    int    `json:"w"`
	Name string `json:"name,omitempty"`
	Val  string `json:"val"` // decimal (unsigned canonical)
	term *Term
}

type Violation struct {
	Kind    string   `json:"kind"` // assert | panic | unreachable | stackoverflow
	Msg     string   `json:"msg"`
	Site    string   `json:"site"`
	Draws   []Draw   `json:"draws"`
	Known   string   `json:"known,omitempty"` // id of the known finding that covers it
	Observe []string `json:"observe,omitempty"`
}

type PathResult struct {
	Status     string // ok | panic | assume | infeasible | unsupported | unwind | budget | stackoverflow | error
	Msg        string
	Violations []Violation
	Asserts    int
	ReachSites map[string]int
	Decisions  int
	SymDecs    int
	Draws      []Draw
	Observes   []string
}

type Exec struct {
	eng          *Engine
	ctx          *Ctx
	solver       *Solver
	prefix       []int64
	decisions    []int64
	forced       []bool
	pc           []*Term
	globals      map[*ssa.Global]*Value
	draws        []Draw
	steps        int
	depth        int
	chanID       int
	templateMode bool
	maxUnwindSeen int
	mergeDepth   int
	res          *PathResult
	declared     int
	onceDone     map[*Value]bool
	known        []knownPred
	observes     []string
	symDecs      int
	vfs          interface{}
	nextVar      int
	replayPos    int
	maxAlloc     int64
	local        map[string]interface{}
	localWork    *[][]int64
	doms         domains
}

func (e *Exec) push(p []int64) {
	if e.localWork != nil {
		*e.localWork = append(*e.localWork, p)
		return
	}
	e.eng.pushWork(p)
}

type knownPred struct {
	id   string
	pred *Term
}

// ---- decisions ----

func (e *Exec) assertPC(t *Term) {
	if t.IsConst() {
		if !t.BoolVal() {
			e.abort("infeasible", "path condition false")
		}
		return
	}
	e.pc = append(e.pc, t)
	if !e.eng.conf.NoDomains {
		e.doms.note(t)
	}
	if e.solver != nil {
		e.flushDecls()
		e.solver.Assert(t)
	}
}

func (e *Exec) flushDecls() {
	for e.declared < len(e.ctx.vars) {
		e.solver.Declare(e.ctx.vars[e.declared])
		e.declared++
	}
}

// checkWith answers whether PC ∧ extra is satisfiable.
func (e *Exec) checkWith(extra *Term) SatResult {
	if extra.IsConst() {
		if !extra.BoolVal() {
			return Unsat
		}
	}
	if e.solver == nil {
		panic(pathAbort{"error", "symbolic query without solver (template/concrete mode): " + extra.String()})
	}
	e.flushDecls()
	e.solver.Push()
	e.solver.Assert(extra)
	r := e.solver.Check()
	e.solver.Pop()
	if r == Unknown {
		r, _ = e.portfolio(extra)
	}
	return r
}

func (e *Exec) recordDecision(v int64, forced bool) {
	e.decisions = append(e.decisions, v)
	e.forced = append(e.forced, forced)
}

// branch decides a symbolic condition, forking when both sides are feasible.
func (e *Exec) branch(fr *frame, cond *Term) bool {
	if cond.IsConst() {
		return cond.BoolVal()
	}
	if e.templateMode {
		e.unsupported(fr, "symbolic branch during package initialisation")
	}
	c := e.ctx
	di := len(e.decisions)
	if di < len(e.prefix) {
		d := e.prefix[di]
		e.recordDecision(d, false)
		if d != 0 {
			e.assertPC(cond)
			return true
		}
		e.assertPC(c.Not(cond))
		return false
	}
	if e.mergeDepth > 0 {
		// merge mode: no solver; follow both sides syntactically
		sib := append(append([]int64{}, e.decisions...), 0)
		e.push(sib)
		e.recordDecision(1, false)
		e.assertPC(cond)
		return true
	}
	e.symDecs++
	st := &e.eng.stats
	if !e.eng.conf.NoDomains {
		if tf, ff, exact, ok := e.doms.decide(cond); ok {
			switch {
			case !tf && !ff:
				e.abort("infeasible", "path condition unsatisfiable (domain)")
			case !tf:
				e.eng.domDecided.Add(1)
				e.recordDecision(0, true)
				e.assertPC(c.Not(cond))
				return false
			case !ff:
				e.eng.domDecided.Add(1)
				e.recordDecision(1, true)
				e.assertPC(cond)
				return true
			case exact:
				e.eng.domDecided.Add(1)
				sib := append(append([]int64{}, e.decisions...), 0)
				e.push(sib)
				e.recordDecision(1, false)
				e.assertPC(cond)
				return true
			}
		}
	}
	if e.eng.conf.Verbose {
		e.eng.mu.Lock()
		if e.eng.querySites == nil {
			e.eng.querySites = map[string]int{}
		}
		nv := map[*Term]bool{}
		termVars(cond, nv, map[int]bool{})
		e.eng.querySites[fmt.Sprintf("%s in %s (vars=%d)", fr.pos(), fr.fn.Name(), len(nv))]++
		e.eng.mu.Unlock()
	}
	r1 := e.checkWith(cond)
	e.countFeas(r1)
	if r1 == Unsat {
		e.recordDecision(0, true)
		// PC entails ¬cond; assert it to help later simplification by the solver
		e.assertPC(c.Not(cond))
		return false
	}
	r2 := e.checkWith(c.Not(cond))
	e.countFeas(r2)
	_ = st
	if r2 == Unsat {
		e.recordDecision(1, true)
		e.assertPC(cond)
		return true
	}
	// both feasible (or unknown: keep both, sound)
	if e.eng.conf.Verbose {
		e.eng.mu.Lock()
		if e.eng.forkSites == nil {
			e.eng.forkSites = map[string]int{}
		}
		e.eng.forkSites[fr.pos()+" in "+fr.fn.Name()]++
		e.eng.mu.Unlock()
	}
	sib := append(append([]int64{}, e.decisions...), 0)
	e.push(sib)
	e.recordDecision(1, false)
	e.assertPC(cond)
	return true
}

func (e *Exec) countFeas(r SatResult) {
	e.eng.mu.Lock()
	switch r {
	case Sat:
		e.eng.stats.FeasSat++
	case Unsat:
		e.eng.stats.FeasUnsat++
	default:
		e.eng.stats.FeasUnknown++
	}
	e.eng.mu.Unlock()
}

// choice forks over the integers lo..hi (used by vp.IntRange / vp.Choice).
func (e *Exec) choice(lo, hi int64) int64 {
	if lo > hi {
		e.abort("assume", "empty choice range [%d,%d]", lo, hi)
	}
	di := len(e.decisions)
	if di < len(e.prefix) {
		d := e.prefix[di]
		e.recordDecision(d, false)
		return d
	}
	for v := hi; v > lo; v-- {
		sib := append(append([]int64{}, e.decisions...), v)
		e.push(sib)
	}
	e.recordDecision(lo, false)
	return lo
}

// concretize forks over the feasible values of a symbolic integer term
// (interpreted as signed 64-bit after resize by the caller).
func (e *Exec) concretize(fr *frame, t *Term, what string) int64 {
	if t.IsConst() {
		return sx(t.val, t.sort.W)
	}
	if e.templateMode {
		e.unsupported(fr, "symbolic %s during package initialisation", what)
	}
	if e.mergeDepth > 0 {
		e.abort("nomerge", "concretisation inside merged call")
	}
	c := e.ctx
	di := len(e.decisions)
	if di < len(e.prefix) {
		d := e.prefix[di]
		e.recordDecision(d, false)
		e.assertPC(c.Eq(t, c.Const(t.sort.W, uint64(d))))
		return d
	}
	e.symDecs++
	// enumerate feasible values through a helper variable defined at path level
	var vals []int64
	tv := c.Var(fmt.Sprintf("cz!%d", e.nextVar), t.sort)
	e.nextVar++
	e.assertPC(c.Eq(tv, t))
	e.solver.Push()
	limit := e.eng.conf.MaxConcretize
	for {
		r := e.solver.Check()
		e.countFeas(r)
		if r == Unknown {
			e.solver.Pop()
			e.abort("unknown", "solver unknown while concretising %s at %s", what, fr.pos())
		}
		if r == Unsat {
			break
		}
		m := e.solver.GetValues([]*Term{tv})
		v := m[tv.name]
		if v == nil {
			e.solver.Pop()
			e.abort("error", "no model value while concretising %s", what)
		}
		uv := v.Uint64()
		vals = append(vals, sx(uv, t.sort.W))
		if len(vals) > limit {
			e.solver.Pop()
			if strings.HasPrefix(what, "make") {
				// An allocation size that the path condition does not bound: explore only the smallest
				// feasible sizes (so that harness assertions on the result can expose the missing
				// guard) and flag the run as incomplete.
				vals = e.smallestValues(tv, 6)
				e.eng.mu.Lock()
				e.eng.unboundedAllocs = append(e.eng.unboundedAllocs, fmt.Sprintf("%s at %s", what, fr.pos()))
				e.eng.mu.Unlock()
				goto chosen
			}
			e.abort("unwind", "more than %d feasible values for %s at %s", limit, what, fr.pos())
		}
		e.solver.Assert(c.Not(c.Eq(tv, c.Const(t.sort.W, uv))))
	}
	e.solver.Pop()
chosen:
	if len(vals) == 0 {
		e.abort("infeasible", "no feasible value for %s", what)
	}
	sort.Slice(vals, func(i, j int) bool { return vals[i] < vals[j] })
	for _, v := range vals[1:] {
		sib := append(append([]int64{}, e.decisions...), v)
		e.push(sib)
	}
	e.recordDecision(vals[0], false)
	e.assertPC(c.Eq(t, c.Const(t.sort.W, uint64(vals[0]))))
	return vals[0]
}

// smallestValues returns up to k smallest non-negative feasible values of tv (binary search with the solver).
func (e *Exec) smallestValues(tv *Term, k int) []int64 {
	c := e.ctx
	w := tv.sort.W
	var out []int64
	lower := int64(0)
	for len(out) < k {
		// is there a feasible value >= lower ?
		lo, hi := lower, int64(1)<<40
		ge := func(v int64) *Term { return c.Cmp(OpSLe, c.Const(w, uint64(v)), tv) }
		le := func(v int64) *Term { return c.Cmp(OpSLe, tv, c.Const(w, uint64(v))) }
		if e.checkWith(c.And(ge(lo), le(hi))) != Sat {
			break
		}
		for lo < hi {
			mid := lo + (hi-lo)/2
			if e.checkWith(c.And(ge(lo), le(mid))) == Sat {
				hi = mid
			} else {
				lo = mid + 1
			}
		}
		out = append(out, lo)
		lower = lo + 1
	}
	return out
}

func (e *Exec) concreteInt(fr *frame, v Value, what string) int64 {
	t, ok := v.(*Term)
	if !ok {
		e.unsupported(fr, "%s: expected integer, got %s", what, describe(v))
	}
	if t.IsConst() {
		return sx(t.val, t.sort.W)
	}
	return e.concretize(fr, t, what)
}

// concreteTerm returns the unsigned value of t, concretising if needed.
func (e *Exec) concreteTerm(fr *frame, t *Term, what string) uint64 {
	if t.IsConst() {
		return t.val
	}
	v := e.concretize(fr, t, what)
	return uint64(v) & mask(t.sort.W)
}

// ---- globals / package initialisation ----

func (e *Exec) globalPtr(g *ssa.Global) Value {
	if p, ok := e.globals[g]; ok {
		return Ptr{p: p}
	}
	tv := e.eng.templateGlobal(e, g)
	if e.templateMode {
		return Ptr{p: tv}
	}
	cell := new(Value)
	*cell = freeze(copyVal(*tv))
	e.globals[g] = cell
	return Ptr{p: cell}
}

func (eng *Engine) templateGlobal(e *Exec, g *ssa.Global) *Value {
	if e.templateMode {
		// already holding the template lock (we are the initialiser)
		eng.ensureInitLocked(g.Pkg)
		return eng.tmplCell(g)
	}
	eng.tmplMu.Lock()
	defer eng.tmplMu.Unlock()
	eng.ensureInitLocked(g.Pkg)
	return eng.tmplCell(g)
}

func (eng *Engine) tmplCell(g *ssa.Global) *Value {
	if c, ok := eng.tmplGlobals[g]; ok {
		return c
	}
	c := new(Value)
	*c = zero(deref(g.Type()))
	eng.tmplGlobals[g] = c
	return c
}

func (eng *Engine) ensureInitLocked(pkg *ssa.Package) {
	if pkg == nil || eng.initState[pkg] != 0 {
		return
	}
	eng.initState[pkg] = 1
	initFn := pkg.Func("init")
	if initFn == nil || initFn.Blocks == nil {
		eng.initState[pkg] = 2
		return
	}
	if eng.tmplExec == nil {
		eng.tmplExec = &Exec{eng: eng, ctx: NewCtx(), templateMode: true, globals: map[*ssa.Global]*Value{}, onceDone: map[*Value]bool{}, local: map[string]interface{}{}}
	}
	te := eng.tmplExec
	saveDepth, saveSteps := te.depth, te.steps
	func() {
		defer func() {
			if r := recover(); r != nil {
				switch r := r.(type) {
				case pathAbort:
					if eng.conf.Verbose {
						fmt.Fprintf(os.Stderr, "[init] %s: incomplete initialisation: %s: %s\n", pkg.Pkg.Path(), r.kind, r.msg)
					}
				case goPanic:
					if eng.conf.Verbose {
						fmt.Fprintf(os.Stderr, "[init] %s: init panicked: %s\n", pkg.Pkg.Path(), describe(r.v))
					}
				default:
					panic(r)
				}
			}
		}()
		te.steps = 0
		te.callSSA(nil, initFn, nil, nil)
	}()
	te.depth, te.steps = saveDepth, saveSteps
	eng.initState[pkg] = 2
}

func (eng *Engine) stdFunc(pkgPath, name string) *ssa.Function {
	key := pkgPath + "." + name
	if v, ok := eng.stdCache.Load(key); ok {
		return v.(*ssa.Function)
	}
	for _, p := range eng.prog.AllPackages() {
		if p.Pkg.Path() == pkgPath {
			fn := p.Func(name)
			if fn == nil {
				panic("stdFunc: no function " + key)
			}
			eng.stdCache.Store(key, fn)
			return fn
		}
	}
	panic("stdFunc: package not loaded: " + pkgPath)
}

func (e *Exec) touch(fn *ssa.Function) {
	if e.templateMode {
		return
	}
	if e.local == nil {
		return
	}
	m, _ := e.local["touched"].(map[*ssa.Function]int)
	if m == nil {
		m = map[*ssa.Function]int{}
		e.local["touched"] = m
	}
	m[fn]++
}

func (e *Exec) touchStub(name string) {
	if e.templateMode || e.local == nil {
		return
	}
	m, _ := e.local["stubs"].(map[string]int)
	if m == nil {
		m = map[string]int{}
		e.local["stubs"] = m
	}
	m[name]++
}

func (e *Exec) noteAlloc(fr *frame, n int64) {
	if n > e.maxAlloc {
		e.maxAlloc = n
	}
}

// ---- work list ----

func (eng *Engine) pushWork(p []int64) {
	eng.mu.Lock()
	eng.work = append(eng.work, p)
	eng.mu.Unlock()
	eng.cond.Signal()
}

func (eng *Engine) popWork() ([]int64, bool) {
	eng.mu.Lock()
	defer eng.mu.Unlock()
	for {
		if eng.stop {
			return nil, false
		}
		if n := len(eng.work); n > 0 {
			p := eng.work[n-1]
			eng.work = eng.work[:n-1]
			eng.inflight++
			return p, true
		}
		if eng.inflight == 0 {
			eng.cond.Broadcast()
			return nil, false
		}
		eng.cond.Wait()
	}
}

func (eng *Engine) doneWork(res *PathResult, e *Exec) {
	eng.mu.Lock()
	eng.inflight--
	eng.results = append(eng.results, res)
	eng.stats.Paths++
	if eng.stats.PathsByStatus == nil {
		eng.stats.PathsByStatus = map[string]int{}
	}
	eng.stats.PathsByStatus[res.Status]++
	eng.stats.Decisions += res.Decisions
	eng.stats.Steps += int64(e.steps)
	if e.maxUnwindSeen > eng.stats.MaxUnwind {
		eng.stats.MaxUnwind = e.maxUnwindSeen
	}
	if e.maxAlloc > eng.stats.MaxAllocSeen {
		eng.stats.MaxAllocSeen = e.maxAlloc
	}
	if m, _ := e.local["touched"].(map[*ssa.Function]int); m != nil {
		for f, n := range m {
			eng.touchedFns[f.String()] += n
		}
	}
	if m, _ := e.local["stubs"].(map[string]int); m != nil {
		for f, n := range m {
			eng.touchedStb[f] += n
		}
	}
	for _, v := range res.Violations {
		if v.Known == "" {
			eng.violPaths++
			break
		}
	}
	if eng.conf.MaxViolPaths > 0 && eng.violPaths >= eng.conf.MaxViolPaths && !eng.stop && (len(eng.work) > 0 || eng.inflight > 0) {
		// enough counterexamples outside the known findings: the verdict is decided, stop exploring
		eng.stop = true
		eng.stats.PathsByStatus["violcap"]++
	}
	if eng.conf.MaxPaths > 0 && eng.stats.Paths >= eng.conf.MaxPaths && (len(eng.work) > 0 || eng.inflight > 0) {
		eng.stop = true
		eng.stats.PathsByStatus["pathcap"]++
	}
	if eng.inflight == 0 && len(eng.work) == 0 {
		eng.cond.Broadcast()
	}
	eng.mu.Unlock()
	eng.cond.Broadcast()
}

// runPath executes the harness once along the given decision prefix.
func (eng *Engine) runPath(harness *ssa.Function, prefix []int64, solver *Solver) (res *PathResult, ex *Exec) {
	e := &Exec{eng: eng, ctx: NewCtx(), solver: solver, prefix: prefix,
		globals: map[*ssa.Global]*Value{}, onceDone: map[*Value]bool{}, local: map[string]interface{}{}}
	res = &PathResult{Status: "ok", ReachSites: map[string]int{}}
	e.res = res
	ex = e
	base := 0
	if solver != nil {
		base = solver.level
		solver.Push()
	}
	defer func() {
		if r := recover(); r != nil {
			switch r := r.(type) {
			case pathAbort:
				res.Status = r.kind
				res.Msg = r.msg
				if r.kind == "stackoverflow" && !eng.conf.StackOK {
					e.recordPanicViolation("stackoverflow", r.msg, "")
				}
				if r.kind == "unwind" && eng.conf.UnwindViolation && strings.HasPrefix(r.msg, "loop at") {
					// a loop that is still running after the unwinding bound: for the no-hang properties
					// this is the violation itself (replayed natively under a time limit)
					e.recordPanicViolation("unwind", r.msg, "")
				}
			case goPanic:
				res.Status = "panic"
				res.Msg = panicString(r.v) + " at " + r.pos
				if !eng.conf.PanicOK {
					e.recordPanicViolation("panic", panicString(r.v), r.pos)
				}
			case solverError:
				res.Status = "error"
				res.Msg = r.msg
			case unsupportedEnc:
				res.Status = "unsupported"
				res.Msg = r.msg
			default:
				res.Status = "error"
				res.Msg = fmt.Sprintf("engine bug: %v\n%s", r, stack())
			}
		}
		res.Decisions = len(e.decisions)
		res.SymDecs = e.symDecs
		res.Draws = e.draws
		res.Observes = e.observes
		if solver != nil && !solver.dead {
			func() {
				defer func() { recover() }()
				solver.PopTo(base)
			}()
		}
	}()
	e.callSSA(nil, harness, nil, nil)
	return
}

func panicString(v Value) string {
	if iv, ok := v.(Iface); ok {
		if iv.T == nil {
			return "panic(nil)"
		}
		switch x := iv.V.(type) {
		case Str:
			if x.IsConc() {
				return fmt.Sprintf("%s: %s", iv.T, x.s)
			}
		case Ptr:
			// *errors.errorString etc.
			if x.p != nil {
				if st, ok := (*x.p).(Struct); ok && len(st) > 0 {
					if s, ok := st[0].(Str); ok && s.IsConc() {
						return fmt.Sprintf("%s: %s", iv.T, s.s)
					}
				}
			}
		}
		return fmt.Sprintf("panic value of type %s", iv.T)
	}
	return describe(v)
}

// model extracts concrete values for all draws under the current PC plus extra.
func (e *Exec) modelDraws(extra *Term) ([]Draw, bool) {
	if e.solver == nil {
		// concrete mode: draws are already concrete
		return append([]Draw{}, e.draws...), true
	}
	e.flushDecls()
	e.solver.Push()
	defer e.solver.Pop()
	if extra != nil {
		e.solver.Assert(extra)
	}
	if r := e.solver.Check(); r != Sat {
		return nil, false
	}
	var vars []*Term
	for _, d := range e.draws {
		if d.term != nil && !d.term.IsConst() {
			vars = append(vars, d.term)
		}
	}
	m := e.solver.GetValues(vars)
	out := make([]Draw, len(e.draws))
	for i, d := range e.draws {
		out[i] = d
		if d.term != nil {
			if d.term.IsConst() {
				out[i].Val = new(big.Int).SetUint64(d.term.val).String()
			} else if v := m[d.term.name]; v != nil {
				out[i].Val = v.String()
			}
		}
		out[i].term = nil
	}
	return out, true
}

func (e *Exec) recordPanicViolation(kind, msg, pos string) {
	defer func() {
		if r := recover(); r != nil {
			e.res.Violations = append(e.res.Violations, Violation{Kind: kind, Msg: msg + " (model extraction failed)", Site: pos})
		}
	}()
	// is the panic covered by a known finding on this path?
	c := e.ctx
	notKnown := c.tt
	for _, k := range e.known {
		notKnown = c.And(notKnown, c.Not(k.pred))
	}
	if draws, ok := e.modelDraws(notKnown); ok {
		e.res.Violations = append(e.res.Violations, Violation{Kind: kind, Msg: msg, Site: pos, Draws: draws, Observe: e.observes})
	}
	for _, k := range e.known {
		if draws, ok := e.modelDraws(k.pred); ok {
			e.res.Violations = append(e.res.Violations, Violation{Kind: kind, Msg: msg, Site: pos, Draws: draws, Known: k.id, Observe: e.observes})
		}
	}
}

func stack() string {
	buf := make([]byte, 1<<14)
	n := runtimeStack(buf)
	lines := strings.Split(string(buf[:n]), "\n")
	var keep []string
	for _, l := range lines {
		if strings.Contains(l, "/verif/engine/") && !strings.Contains(l, "explore.go:") && !strings.Contains(l, "intrinsics.go:20") && !strings.Contains(l, "exec.go:24") {
			keep = append(keep, strings.TrimSpace(l))
		}
		if len(keep) >= 10 {
			break
		}
	}
	return strings.Join(keep, " <- ")
}

// Explore runs all paths of the harness.
func (eng *Engine) Explore(harness *ssa.Function) {
	eng.cond = sync.NewCond(&eng.mu)
	eng.work = [][]int64{{}}
	if eng.initialWork != nil {
		eng.work = eng.initialWork
	}
	eng.touchedFns = map[string]int{}
	eng.touchedStb = map[string]int{}
	var wg sync.WaitGroup
	nw := eng.conf.Workers
	if nw < 1 {
		nw = 1
	}
	for w := 0; w < nw; w++ {
		wg.Add(1)
		go func(w int) {
			defer wg.Done()
			var solver *Solver
			newSolver := func() {
				var err error
				logp := ""
				if eng.conf.SolverLog != "" {
					logp = fmt.Sprintf("%s.%d.smt2", eng.conf.SolverLog, w)
				}
				solver, err = NewSolver(eng.conf.SolverKind, eng.conf.Enc, eng.conf.TimeoutMs, logp)
				if err != nil {
					panic(err)
				}
			}
			if eng.conf.Concrete == nil {
				newSolver()
				defer func() { solver.Close() }()
			}
			for {
				p, ok := eng.popWork()
				if !ok {
					return
				}
				if solver != nil && solver.dead {
					solver.Close()
					newSolver()
				}
				res, ex := eng.runPath(harness, p, solver)
				if solver != nil {
					eng.mu.Lock()
					eng.stats.SolverTime += solver.elapsed
					solver.elapsed = 0
					eng.mu.Unlock()
				}
				if eng.conf.Verbose && res.Status != "ok" {
					fmt.Fprintf(os.Stderr, "[path %v] %s: %s\n", p, res.Status, res.Msg)
				}
				eng.doneWork(res, ex)
			}
		}(w)
	}
	wg.Wait()
}

var _ = strings.Contains
