package main

import (
	"encoding/json"
	"flag"
	"fmt"
	"go/ast"
	"go/types"
	"os"
	"path/filepath"
	"sort"
	"strconv"
	"strings"
	"time"

	"golang.org/x/tools/go/packages"
	"golang.org/x/tools/go/ssa"
	"golang.org/x/tools/go/ssa/ssautil"
)

type multiFlag []string

func (m *multiFlag) String() string     { return strings.Join(*m, ",") }
func (m *multiFlag) Set(s string) error { *m = append(*m, s); return nil }

// ReplayVector supplies recorded draw values in concrete mode.
type ReplayVector struct {
	Draws []Draw `json:"draws"`
}

func (rv *ReplayVector) next(e *Exec, kind string, w int) uint64 {
	if e.replayPos >= len(rv.Draws) {
		e.abort("error", "replay vector exhausted at draw %d", e.replayPos)
	}
	d := rv.Draws[e.replayPos]
	e.replayPos++
	v, err := strconv.ParseUint(d.Val, 10, 64)
	if err != nil {
		e.abort("error", "bad replay value %q", d.Val)
	}
	return v
}

type Output struct {
	Harness     string                 `json:"harness"`
	Pkg         string                 `json:"pkg"`
	Bounds      map[string]int         `json:"bounds"`
	Unwind      int                    `json:"unwind"`
	UnwindUsed  int                    `json:"unwind_used"`
	Encoding    string                 `json:"encoding"`
	Solver      string                 `json:"solver"`
	Paths       int                    `json:"paths"`
	PathStatus  map[string]int         `json:"path_status"`
	Queries     map[string]int         `json:"queries"`
	Decisions   int                    `json:"decisions"`
	Steps       int64                  `json:"steps"`
	SolverTimeS float64                `json:"solver_time_s"`
	WallS       float64                `json:"wall_s"`
	LoadS       float64                `json:"load_s"`
	Violations  []Violation            `json:"violations"`
	Problems    []string               `json:"problems"` // unsupported / unwind / unknown / budget: fail closed
	FnsPdfcpu   []string               `json:"functions_pdfcpu"`
	FnsOther    []string               `json:"functions_other"`
	Stubs       []string               `json:"stubs"`
	ReachSites  map[string]int         `json:"reach_sites"`
	AssertSites []string               `json:"assert_sites"`
	Asserts     int                    `json:"asserts"`
	NontrivialPaths int                `json:"nontrivial_paths"`
	Sample      []Draw                 `json:"sample"`
	SampleObs   []string               `json:"sample_observe,omitempty"`
	MaxAlloc    int64                  `json:"max_alloc"`
	Extra       map[string]interface{} `json:"extra,omitempty"`
	ConcreteObs []string               `json:"concrete_observe,omitempty"`
	ConcreteStatus string              `json:"concrete_status,omitempty"`
}

func main() {
	var (
		dir      = flag.String("dir", "/repo", "module directory")
		pkgPat   = flag.String("pkg", "", "package pattern (relative to dir)")
		overlay  = flag.String("overlay", "/verif/harness", "overlay root mirroring the module tree")
		harness  = flag.String("harness", "", "harness function name")
		out      = flag.String("out", "", "output json")
		unwind   = flag.Int("unwind", 64, "unwind bound")
		workers  = flag.Int("workers", 8, "worker count")
		enc      = flag.String("enc", "bv", "bv|int")
		solver   = flag.String("solver", "z3-new", "z3-new|z3|cvc5|cvc5-bvint")
		timeout  = flag.Int("timeout", 20000, "per query timeout ms")
		maxPaths = flag.Int("maxpaths", 2000000, "path cap")
		maxSteps = flag.Int("maxsteps", 20000000, "instruction budget per path")
		verbose  = flag.Bool("v", false, "verbose")
		trace    = flag.Bool("trace", false, "trace calls")
		replay   = flag.String("replay", "", "concrete mode: replay vector json")
		replaySet = flag.String("replayset", "", "concrete mode: json array of replay vectors, all run in this process")
		panicOK  = flag.Bool("panicok", false, "uncaught panics are not violations")
		revMap   = flag.Bool("revmap", false, "iterate maps in reverse insertion order")
		mapRot   = flag.Bool("maprotate", false, "fork over the starting point of every map iteration")
		unwViol  = flag.Bool("unwindviol", false, "report an exceeded unwinding bound as a violation (non-termination)")
		noPort   = flag.Bool("noportfolio", false, "do not retry unknown solver answers with fresh solvers in other configurations")
		maxViol  = flag.Int("maxviol", 40, "stop exploring after this many violating paths outside the known findings (0 = never)")
		nomerge  = flag.Bool("nomerge", false, "disable function-level merging")
		nodom    = flag.Bool("nodomains", false, "disable unary domain reasoning (every branch goes to the solver)")
		slog     = flag.String("solverlog", "", "solver log prefix")
		knownF   = flag.String("known", "", "comma separated open known-finding ids")
		list     = flag.Bool("list", false, "list harnesses in the package")
		prefixF  = flag.String("prefix", "", "start exploration from this decision prefix only (comma separated)")
		wallMax  = flag.Int("walltime", 3000, "wall-clock limit for exploration in seconds (fail closed)")
		bounds   multiFlag
		stubs    multiFlag
		merges   multiFlag
	)
	patchSpec := flag.String("patchstubs", "", "spec.json: generate source-patched copies for native stub injection")
	patchOutDir := flag.String("patchout", "", "directory for patched copies")
	flag.Var(&bounds, "bound", "NAME=value")
	flag.Var(&stubs, "stub", "full.Func=HarnessFunc")
	flag.Var(&merges, "merge", "function to merge")
	flag.Parse()

	os.Setenv("PATH", "/opt/veriftools/go1.26.8/bin:"+os.Getenv("PATH"))
	if *patchSpec != "" {
		if err := patchStubs(*patchSpec, *patchOutDir, *overlay); err != nil {
			fatal("patchstubs: %v", err)
		}
		return
	}
	t0 := time.Now()
	conf := Config{Unwind: *unwind, MaxSteps: *maxSteps, MaxDepth: 400, MaxPaths: *maxPaths, MaxViolPaths: *maxViol, NoPortfolio: *noPort, UnwindViolation: *unwViol, MaxAlloc: 1 << 22,
		MaxIteTable: 4096, MaxConcretize: 300, Workers: *workers, SolverKind: *solver, TimeoutMs: *timeout,
		Trace: *trace, Verbose: *verbose, MapOrderReversed: *revMap, MapRotate: *mapRot, NoMerge: *nomerge, Bounds: map[string]int{},
		KnownOpen: map[string]bool{}, PanicOK: *panicOK, SolverLog: *slog, NoDomains: *nodom}
	if *enc == "int" {
		conf.Enc = EncInt
	}
	for _, b := range bounds {
		kv := strings.SplitN(b, "=", 2)
		v, err := strconv.Atoi(kv[1])
		if err != nil {
			fatal("bad bound %s", b)
		}
		conf.Bounds[kv[0]] = v
	}
	for _, k := range strings.Split(*knownF, ",") {
		if k != "" {
			conf.KnownOpen[k] = true
		}
	}
	if *replay != "" {
		data, err := os.ReadFile(*replay)
		if err != nil {
			fatal("replay: %v", err)
		}
		var rv ReplayVector
		if err := json.Unmarshal(data, &rv); err != nil {
			fatal("replay: %v", err)
		}
		conf.Concrete = &rv
		conf.Workers = 1
	}

	// overlay
	ov := map[string][]byte{}
	if *overlay != "" {
		filepath.Walk(*overlay, func(p string, info os.FileInfo, err error) error {
			if err != nil || info.IsDir() || !strings.HasSuffix(p, ".go") {
				return nil
			}
			rel, _ := filepath.Rel(*overlay, p)
			data, _ := os.ReadFile(p)
			ov[filepath.Join(*dir, rel)] = data
			return nil
		})
	}
	cfg := &packages.Config{
		Mode: packages.NeedName | packages.NeedFiles | packages.NeedCompiledGoFiles | packages.NeedImports |
			packages.NeedDeps | packages.NeedTypes | packages.NeedSyntax | packages.NeedTypesInfo | packages.NeedTypesSizes,
		Dir:     *dir,
		Overlay: ov,
		Env:     append(os.Environ(), "PATH=/opt/veriftools/go1.26.8/bin:"+os.Getenv("PATH"), "GOFLAGS=-mod=mod", "GOPROXY=off", "GOTOOLCHAIN=local", "CGO_ENABLED=0"),
	}
	pkgs, err := packages.Load(cfg, *pkgPat, "./internal/zzverif/rt")
	if err != nil {
		fatal("load: %v", err)
	}
	nerr := 0
	packages.Visit(pkgs, nil, func(p *packages.Package) {
		for _, e := range p.Errors {
			fmt.Fprintf(os.Stderr, "load error: %s: %v\n", p.PkgPath, e)
			nerr++
		}
	})
	if nerr > 0 {
		fatal("package load errors")
	}
	prog, spkgs := ssautil.AllPackages(pkgs, ssa.InstantiateGenerics)
	prog.Build()
	var mainPkg *ssa.Package
	for i, p := range pkgs {
		if p.PkgPath != rtPath {
			mainPkg = spkgs[i]
		}
	}
	if mainPkg == nil {
		fatal("package not found")
	}
	loadS := time.Since(t0).Seconds()

	if *list {
		for name, m := range mainPkg.Members {
			if f, ok := m.(*ssa.Function); ok && strings.HasPrefix(name, "Verif") {
				fmt.Println(f.Name())
			}
		}
		return
	}

	hfn := mainPkg.Func(*harness)
	if hfn == nil {
		fatal("harness %s not found in %s", *harness, mainPkg.Pkg.Path())
	}
	eng := &Engine{prog: prog, conf: conf, tmplGlobals: map[*ssa.Global]*Value{}, initState: map[*ssa.Package]int{},
		stubs: map[*ssa.Function]*ssa.Function{}, mergeFns: map[string]bool{}}
	eng.registerIntrinsics()
	registerOS(eng)
	// runtime.Error-ish dynamic type for runtime panics: use a named type from rt
	eng.runtimeErrorT = eng.namedType(rtPath, "RuntimeError")

	// directives from the harness doc comment
	if fd, ok := hfn.Syntax().(*ast.FuncDecl); ok && fd.Doc != nil {
		for _, c := range fd.Doc.List {
			txt := strings.TrimSpace(strings.TrimPrefix(c.Text, "//"))
			switch {
			case strings.HasPrefix(txt, "verif:stub "):
				stubs = append(stubs, strings.ReplaceAll(strings.TrimPrefix(txt, "verif:stub "), " ", ""))
			case strings.HasPrefix(txt, "verif:merge "):
				for _, m := range strings.Fields(strings.TrimPrefix(txt, "verif:merge ")) {
					merges = append(merges, m)
				}
			case strings.HasPrefix(txt, "verif:panicok"):
				eng.conf.PanicOK = true
			}
		}
	}
	for _, s := range stubs {
		kv := strings.SplitN(s, "=", 2)
		if len(kv) != 2 {
			fatal("bad stub %s", s)
		}
		from := findFunc(prog, mainPkg, kv[0])
		to := findFunc(prog, mainPkg, kv[1])
		if from == nil || to == nil {
			fatal("stub %s: function not found (from=%v to=%v)", s, from != nil, to != nil)
		}
		if !types.Identical(from.Signature.Params(), to.Signature.Params()) && from.Signature.Recv() == nil {
			fatal("stub %s: signature mismatch: %s vs %s", s, from.Signature, to.Signature)
		}
		eng.stubs[from] = to
	}
	if !*nomerge {
		for _, m := range merges {
			f := findFunc(prog, mainPkg, m)
			if f == nil {
				fatal("merge %s: function not found", m)
			}
			eng.mergeFns[f.String()] = true
		}
	}

	if *replaySet != "" {
		data, err := os.ReadFile(*replaySet)
		if err != nil {
			fatal("replayset: %v", err)
		}
		var vecs []ReplayVector
		if err := json.Unmarshal(data, &vecs); err != nil {
			fatal("replayset: %v", err)
		}
		type concRun struct {
			Status   string   `json:"status"`
			Msg      string   `json:"msg"`
			Observes []string `json:"observes"`
		}
		var runs []concRun
		for i := range vecs {
			eng.conf.Concrete = &vecs[i]
			eng.conf.Workers = 1
			eng.results = nil
			eng.stats = Stats{}
			eng.stop = false
			eng.Explore(hfn)
			r := eng.results[0]
			cr := concRun{Status: r.Status, Msg: r.Msg, Observes: r.Observes}
			if len(r.Violations) > 0 {
				cr.Msg = r.Violations[0].Msg
			}
			runs = append(runs, cr)
		}
		data, _ = json.MarshalIndent(runs, "", " ")
		if *out != "" {
			os.WriteFile(*out, data, 0o644)
		} else {
			os.Stdout.Write(data)
		}
		return
	}

	t1 := time.Now()
	timedOut := false
	doneCh := make(chan struct{})
	go func() {
		tick := time.NewTicker(10 * time.Second)
		defer tick.Stop()
		for {
			select {
			case <-doneCh:
				return
			case <-tick.C:
				eng.mu.Lock()
				if *verbose {
					fmt.Fprintf(os.Stderr, "[gosym] %.0fs paths=%d work=%d inflight=%d feas=%d/%d\n", time.Since(t1).Seconds(), eng.stats.Paths, len(eng.work), eng.inflight, eng.stats.FeasSat, eng.stats.FeasUnsat)
				}
				if time.Since(t1).Seconds() > float64(*wallMax) {
					eng.stop = true
					timedOut = true
				}
				eng.mu.Unlock()
				eng.cond.Broadcast()
			}
		}
	}()
	if *prefixF != "" {
		var pf []int64
		for _, x := range strings.Split(*prefixF, ",") {
			v, err := strconv.ParseInt(strings.TrimSpace(x), 10, 64)
			if err != nil {
				fatal("bad prefix")
			}
			pf = append(pf, v)
		}
		eng.initialWork = [][]int64{pf}
	}
	eng.Explore(hfn)
	close(doneCh)
	wall := time.Since(t1).Seconds()

	// aggregate
	o := Output{Harness: *harness, Pkg: mainPkg.Pkg.Path(), Bounds: conf.Bounds, Unwind: conf.Unwind, UnwindUsed: eng.stats.MaxUnwind,
		Encoding: *enc, Solver: *solver, Paths: eng.stats.Paths, PathStatus: eng.stats.PathsByStatus,
		Queries: map[string]int{"feas_sat": eng.stats.FeasSat, "feas_unsat": eng.stats.FeasUnsat, "feas_unknown": eng.stats.FeasUnknown,
			"assert_sat": eng.stats.AssertSat, "assert_unsat": eng.stats.AssertUnsat, "assert_unknown": eng.stats.AssertUnknown,
			"assert_concrete": eng.stats.AssertConcrete, "portfolio_rescued": eng.stats.PortfolioRescued, "merged_calls": eng.stats.Merged, "if_conversions": int(eng.ifconv.Load()), "domain_decided": int(eng.domDecided.Load())},
		Decisions: eng.stats.Decisions, Steps: eng.stats.Steps, SolverTimeS: eng.stats.SolverTime.Seconds(), WallS: wall, LoadS: loadS,
		ReachSites: map[string]int{}, MaxAlloc: eng.stats.MaxAllocSeen}
	seenV := map[string]int{}
	for _, r := range eng.results {
		o.Asserts += r.Asserts
		if r.SymDecs > 0 || len(r.Draws) > 0 {
			o.NontrivialPaths++
		}
		for s, n := range r.ReachSites {
			o.ReachSites[s] += n
		}
		for _, v := range r.Violations {
			key := v.Kind + "|" + v.Site + "|" + v.Msg + "|" + v.Known
			seenV[key]++
			if seenV[key] <= 3 {
				o.Violations = append(o.Violations, v)
			}
		}
		switch r.Status {
		case "ok", "assume", "infeasible", "assertfail", "exit":
		case "panic":
			if !eng.conf.PanicOK {
				// recorded as violation already
			}
		case "stackoverflow":
		case "unwind":
			if conf.UnwindViolation && strings.HasPrefix(r.Msg, "loop at") {
				break // recorded as a violation (non-termination)
			}
			if len(o.Problems) < 20 {
				o.Problems = append(o.Problems, r.Status+": "+r.Msg)
			}
		default:
			if len(o.Problems) < 20 {
				o.Problems = append(o.Problems, r.Status+": "+r.Msg)
			}
		}
		if o.Sample == nil && r.Status == "ok" && len(r.Draws) > 0 && conf.Concrete == nil {
			o.Sample = stripTerms(r.Draws)
			o.SampleObs = r.Observes
		}
		if conf.Concrete != nil {
			o.ConcreteObs = r.Observes
			o.ConcreteStatus = r.Status
			if r.Status != "ok" {
				o.ConcreteStatus += ": " + r.Msg
			}
		}
	}
	for i, ua := range eng.unboundedAllocs {
		if i < 5 {
			o.Problems = append(o.Problems, "unbounded allocation: the path condition does not bound "+ua+" (only the smallest sizes were explored)")
		}
	}
	if timedOut {
		o.Problems = append(o.Problems, fmt.Sprintf("walltime: exploration stopped after %ds with %d paths done", *wallMax, eng.stats.Paths))
	}
	if eng.stats.PathsByStatus["violcap"] > 0 {
		o.Problems = append(o.Problems, fmt.Sprintf("violcap: exploration stopped after %d violating paths (%d paths done)", *maxViol, eng.stats.Paths))
	}
	if eng.stats.PathsByStatus["pathcap"] > 0 {
		o.Problems = append(o.Problems, fmt.Sprintf("pathcap: exploration stopped at %d paths", eng.stats.Paths))
	}
	for s := range o.ReachSites {
		o.AssertSites = append(o.AssertSites, s)
	}
	sort.Strings(o.AssertSites)
	for f := range eng.touchedFns {
		if strings.Contains(f, "github.com/pdfcpu/pdfcpu") && !strings.Contains(f, "zzverif") {
			o.FnsPdfcpu = append(o.FnsPdfcpu, f)
		} else if !strings.Contains(f, "zzverif") {
			o.FnsOther = append(o.FnsOther, f)
		}
	}
	sort.Strings(o.FnsPdfcpu)
	sort.Strings(o.FnsOther)
	for s := range eng.touchedStb {
		o.Stubs = append(o.Stubs, s)
	}
	for from, to := range eng.stubs {
		o.Stubs = append(o.Stubs, "stub:"+from.String()+"="+to.Name())
	}
	sort.Strings(o.Stubs)
	if *verbose {
		type kv2 struct {
			k string
			v int
		}
		var qs []kv2
		for k, v := range eng.querySites {
			qs = append(qs, kv2{k, v})
		}
		sort.Slice(qs, func(i, j int) bool { return qs[i].v > qs[j].v })
		for i, f := range qs {
			if i >= 15 {
				break
			}
			fmt.Fprintf(os.Stderr, "[queries] %6d %s\n", f.v, f.k)
		}
	}
	if *verbose {
		type kv struct {
			k string
			v int
		}
		var fs []kv
		for k, v := range eng.forkSites {
			fs = append(fs, kv{k, v})
		}
		sort.Slice(fs, func(i, j int) bool { return fs[i].v > fs[j].v })
		for i, f := range fs {
			if i >= 15 {
				break
			}
			fmt.Fprintf(os.Stderr, "[forks] %6d %s\n", f.v, f.k)
		}
	}
	data, _ := json.MarshalIndent(o, "", " ")
	if *out != "" {
		os.WriteFile(*out, data, 0o644)
	} else {
		os.Stdout.Write(data)
		fmt.Println()
	}
	fmt.Fprintf(os.Stderr, "[gosym] %s %v: paths=%d %v asserts=%d queries(feas %d/%d/%d assert sat=%d unsat=%d unk=%d conc=%d) viol=%d problems=%d load=%.1fs wall=%.1fs solver=%.1fs\n",
		*harness, conf.Bounds, o.Paths, o.PathStatus, o.Asserts, eng.stats.FeasSat, eng.stats.FeasUnsat, eng.stats.FeasUnknown,
		eng.stats.AssertSat, eng.stats.AssertUnsat, eng.stats.AssertUnknown, eng.stats.AssertConcrete, len(o.Violations), len(o.Problems), loadS, wall, o.SolverTimeS)
}

func fatal(format string, args ...interface{}) {
	fmt.Fprintf(os.Stderr, "gosym: "+format+"\n", args...)
	os.Exit(2)
}

// findFunc resolves "pkg/path.Func", "(*pkg/path.T).Method", or a bare name in the main package.
func findFunc(prog *ssa.Program, mainPkg *ssa.Package, name string) *ssa.Function {
	if !strings.Contains(name, ".") {
		return mainPkg.Func(name)
	}
	for fn := range ssautil.AllFunctions(prog) {
		if fn.String() == name {
			return fn
		}
	}
	// methods that are not yet materialised
	for _, p := range prog.AllPackages() {
		for _, m := range p.Members {
			if t, ok := m.(*ssa.Type); ok {
				for _, typ := range []types.Type{t.Type(), types.NewPointer(t.Type())} {
					ms := prog.MethodSets.MethodSet(typ)
					for i := 0; i < ms.Len(); i++ {
						if f := prog.MethodValue(ms.At(i)); f != nil && f.String() == name {
							return f
						}
					}
				}
			}
		}
	}
	return nil
}

// callMerged explores all syntactic paths of a side-effect-free callee without
// solver queries and merges the results into ite terms guarded by the branch
// conditions, so the caller continues as one path. Infeasible arms carry
// unsatisfiable guards and are harmless. Any panic, abort or need for
// concretisation inside the callee abandons the merge and falls back to an
// ordinary (forking) call.
func (e *Exec) callMerged(caller *frame, fn *ssa.Function, args []Value, env []Value) (result Value) {
	res := fn.Signature.Results()
	if res.Len() == 0 {
		return e.callSSA(caller, fn, args, env)
	}
	for i := 0; i < res.Len(); i++ {
		if _, ok := basicIntKind(res.At(i).Type()); !ok && !isBoolT(res.At(i).Type()) {
			return e.callSSA(caller, fn, args, env)
		}
	}
	symbolic := false
	for _, a := range args {
		if t, ok := a.(*Term); ok && !t.IsConst() {
			symbolic = true
		}
		if s, ok := a.(Str); ok && !s.IsConc() {
			symbolic = true
		}
	}
	if !symbolic {
		return e.callSSA(caller, fn, args, env)
	}
	nvars := len(e.ctx.vars)
	sub := &Exec{eng: e.eng, ctx: e.ctx, solver: nil, globals: e.globals, onceDone: e.onceDone,
		local: e.local, mergeDepth: 1, res: e.res, draws: e.draws, known: e.known, nextVar: e.nextVar}
	type outcome struct {
		guard *Term
		val   Value
	}
	var outs []outcome
	work := [][]int64{{}}
	c := e.ctx
	failed := false
	for len(work) > 0 && !failed {
		prefix := work[len(work)-1]
		work = work[:len(work)-1]
		sub.prefix = prefix
		sub.decisions = nil
		sub.forced = nil
		sub.pc = nil
		sub.depth = e.depth
		sub.steps = 0
		sub.localWork = &work
		var val Value
		infeasible := false
		func() {
			defer func() {
				if r := recover(); r != nil {
					switch r := r.(type) {
					case pathAbort:
						if r.kind == "infeasible" {
							infeasible = true
						} else {
							failed = true
							if e.eng.conf.Verbose {
								fmt.Fprintf(os.Stderr, "[merge] %s abandoned: %s %s\n", fn.Name(), r.kind, r.msg)
							}
						}
					case goPanic:
						failed = true
						if e.eng.conf.Verbose {
							fmt.Fprintf(os.Stderr, "[merge] %s abandoned: panic %s\n", fn.Name(), panicString(r.v))
						}
					default:
						panic(r)
					}
				}
			}()
			val = sub.callSSA(caller, fn, args, env)
		}()
		if failed {
			break
		}
		if infeasible {
			continue
		}
		g := c.tt
		for _, t := range sub.pc {
			g = c.And(g, t)
		}
		outs = append(outs, outcome{g, val})
		if len(outs) > 512 {
			failed = true
		}
	}
	if failed || len(outs) == 0 || len(e.ctx.vars) != nvars {
		e.ctx.vars = e.ctx.vars[:nvars]
		return e.callSSA(caller, fn, args, env)
	}
	e.steps += 50
	e.eng.mu.Lock()
	e.eng.stats.Merged++
	e.eng.mu.Unlock()
	merge := func(get func(Value) *Term) *Term {
		r := get(outs[len(outs)-1].val)
		for i := len(outs) - 2; i >= 0; i-- {
			r = c.Ite(outs[i].guard, get(outs[i].val), r)
		}
		return r
	}
	if res.Len() == 1 {
		return merge(func(v Value) *Term { return v.(*Term) })
	}
	tup := make(Tuple, res.Len())
	for i := range tup {
		i := i
		tup[i] = merge(func(v Value) *Term { return v.(Tuple)[i].(*Term) })
	}
	return tup
}
